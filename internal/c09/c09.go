// Package c09 walks the cross product built-in function x argument tuple
// (and format control strings, and reader inputs) on the real interpreter and
// checks that every outcome is a value or a Lisp condition of a documented
// class: never a Go runtime fault dressed up as an error, a dead process, an
// unbounded allocation or a hang.
package c09

import (
	"encoding/json"
	"fmt"
	"math/rand/v2"
	"os"
	"regexp"
	"runtime"
	"runtime/debug"
	"runtime/metrics"
	"strconv"
	"strings"
	"syscall"
	"time"

	"github.com/ohler55/slip"

	"verif/internal/fw"
	"verif/internal/sl"
)

// Case is one call, one format call or one read.
type Case struct {
	K    string   `json:"k"`              // fn | fmt | rd | src | skip | probe
	Fn   string   `json:"fn,omitempty"`   // pkg:name
	Raw  bool     `json:"raw,omitempty"`  // unevaluated positions get the bare object
	Args []string `json:"args,omitempty"` // pool names; ":xyz" = a literal keyword
	Ctl  string   `json:"ctl,omitempty"`  // format control string
	Src  []byte   `json:"src,omitempty"`  // reader input
	Via  string   `json:"via,omitempty"`  // reader delivery: bytes | stream | rfs
	Why  string   `json:"why,omitempty"`  // skip: the finding the construct belongs to
	Sub  string   `json:"sub,omitempty"`  // probe: kind of the inner case (fn | fmt)
	// Twice: the same form object is evaluated a second time (a call inside a
	// loop body): destructive functions then meet the literal they changed,
	// and the evaluator meets the arguments it rewrote on the first pass.
	Twice bool `json:"twice,omitempty"`
	// In: the package that is current while the call is evaluated ("" = the
	// user package): bare = a fresh package that uses nothing, cl = a fresh
	// package that uses common-lisp only, or the name of a built-in package.
	// Whatever the runtime needs to raise a condition must not depend on what
	// the current package happens to use.
	In string `json:"in,omitempty"`
	// Amb: the piece of ambient state that is not the default while the call
	// (or the read, or the format call) is evaluated; see ambient.go.
	Amb string `json:"amb,omitempty"`
	// Dest: format only: where the output goes and through which function the
	// control string arrives (see fmtDests in format.go); "" = (format nil ...).
	Dest string `json:"dest,omitempty"`
	// After: chain cases only (see chain.go): the call that is evaluated (inside
	// ignore-errors) on the same object before the call under observation.
	After []string `json:"after,omitempty"`
	Text  string   `json:"text,omitempty"` // src: a program text that is read and evaluated
}

const (
	stepBudget  = 1_000_000 // evaluation steps (Function.Eval entries) per case
	allocBudget = 256 << 20 // bytes allocated by one call on pool arguments
	budgetMsg   = "c09-step-budget-exceeded"
)

// ---------------------------------------------------------------------------
// case list layout: a fixed sequence of blocks per tier; block k of size n
// owns the next n case indices.

type block struct {
	name   string
	n      int
	seeded bool // cases depend on VERIF_SEED
	gen    func(r *rand.Rand, k int) Case
}

var layouts = map[string][]block{}

func total(bs []block) (n int) {
	for _, b := range bs {
		n += b.n
	}
	return
}

// sampled turns an exhaustive block into a seeded sample of m of its cases.
func sampled(b block, m int) block {
	full := b.n
	if full == 0 {
		m = 0
	}
	return block{name: b.name + "-sample", n: m, seeded: true, gen: func(r *rand.Rand, _ int) Case { return b.gen(r, r.IntN(full)) }}
}

func getLayout(tier string) []block {
	if l := layouts[tier]; l != nil {
		return l
	}
	loadTargets()
	nT, P, Q, S := len(targets), len(pool), len(quickPool), len(smallPool)
	fn0 := block{name: "fn0", n: nT, gen: func(_ *rand.Rand, k int) Case { return mkFn(&targets[k]) }}
	fn1 := block{name: "fn1", n: nT * P, gen: func(_ *rand.Rand, k int) Case { return mkFn(&targets[k/P], pool[k%P].Name) }}
	fn2 := block{name: "fn2", n: nT * P * P, gen: func(_ *rand.Rand, k int) Case {
		return mkFn(&targets[k/(P*P)], pool[(k/P)%P].Name, pool[k%P].Name)
	}}
	fn2q := block{name: "fn2-quickpool", n: nT * Q * Q, gen: func(_ *rand.Rand, k int) Case {
		return mkFn(&targets[k/(Q*Q)], quickPool[(k/Q)%Q], quickPool[k%Q])
	}}
	var numT []int
	for i := range targets {
		if targets[i].numeric {
			numT = append(numT, i)
		}
	}
	NP := len(numPool)
	fn2num := block{name: "fn2-numeric-pairs", n: len(numT) * NP * NP, gen: func(_ *rand.Rand, k int) Case {
		return mkFn(&targets[numT[k/(NP*NP)]], numPool[(k/NP)%NP], numPool[k%NP])
	}}
	t3 := targets3()
	fn3 := block{name: "fn3-smallpool", n: len(t3) * S * S * S, gen: func(_ *rand.Rand, k int) Case {
		return mkFn(&targets[t3[k/(S*S*S)]], smallPool[(k/(S*S))%S], smallPool[(k/S)%S], smallPool[k%S])
	}}
	fn1twice := block{name: "fn1-twice", n: nT * P, gen: func(_ *rand.Rand, k int) Case {
		c := mkFn(&targets[k/P], pool[k%P].Name)
		if c.K == "fn" {
			c.Twice = true
		}
		return c
	}}
	fn1in := block{name: "fn1-in-package", n: nT * P, gen: func(_ *rand.Rand, k int) Case {
		c := mkFn(&targets[k/P], pool[k%P].Name)
		if c.K == "fn" {
			c.In = inPkgs[(k/P+k%P)%len(inPkgs)]
		}
		return c
	}}
	// ambient state: every function x ambArgs x every ambient state (deterministic,
	// also in the quick tier), and the whole fn1 block x every ambient state
	nA, nAA := len(ambients), len(ambArgs)
	fn1ambDet := block{name: "fn1-ambient-det", n: nT * nAA * nA, gen: func(_ *rand.Rand, k int) Case {
		c := mkFn(&targets[k/(nAA*nA)], ambArgs[(k/nA)%nAA])
		if c.K == "fn" {
			c.Amb = ambients[k%nA]
		}
		return c
	}}
	fn0amb := block{name: "fn0-ambient", n: nT * nA, gen: func(_ *rand.Rand, k int) Case {
		c := mkFn(&targets[k/nA])
		if c.K == "fn" {
			c.Amb = ambients[k%nA]
		}
		return c
	}}
	fn1amb := block{name: "fn1-ambient", n: nT * P * nA, gen: func(_ *rand.Rand, k int) Case {
		c := mkFn(&targets[k/(P*nA)], pool[(k/nA)%P].Name)
		if c.K == "fn" {
			c.Amb = ambients[k%nA]
		}
		return c
	}}
	fn2amb := block{name: "fn2-ambient", n: nT * Q * Q * nA, gen: func(_ *rand.Rand, k int) Case {
		c := mkFn(&targets[k/(Q*Q*nA)], quickPool[(k/(Q*nA))%Q], quickPool[(k/nA)%Q])
		if c.K == "fn" {
			c.Amb = ambients[k%nA]
		}
		return c
	}}
	// built-in methods through send
	loadSendTargets()
	nS, SP := len(sendTargets), len(sendPairPool)
	send01 := block{name: "send-0-1", n: nS * (1 + P), gen: func(_ *rand.Rand, k int) Case {
		st := &sendTargets[k/(1+P)]
		if k%(1+P) == 0 {
			return mkSend(st)
		}
		return mkSend(st, pool[k%(1+P)-1].Name)
	}}
	send2q := block{name: "send-2-pairpool", n: nS * SP * SP, gen: func(_ *rand.Rand, k int) Case {
		return mkSend(&sendTargets[k/(SP*SP)], sendPairPool[(k/SP)%SP], sendPairPool[k%SP])
	}}
	send2 := block{name: "send-2-quickpool", n: nS * Q * Q, gen: func(_ *rand.Rand, k int) Case {
		return mkSend(&sendTargets[k/(Q*Q)], quickPool[(k/Q)%Q], quickPool[k%Q])
	}}
	send3 := block{name: "send-3-smallpool", n: nS * S * S * S, gen: func(_ *rand.Rand, k int) Case {
		return mkSend(&sendTargets[k/(S*S*S)], smallPool[(k/(S*S))%S], smallPool[(k/S)%S], smallPool[k%S])
	}}
	send1amb := block{name: "send-1-ambient", n: nS * (1 + nAA) * nA, gen: func(_ *rand.Rand, k int) Case {
		st := &sendTargets[k/((1+nAA)*nA)]
		var c Case
		if a := (k / nA) % (1 + nAA); a == 0 {
			c = mkSend(st)
		} else {
			c = mkSend(st, ambArgs[a-1])
		}
		if c.K == "fn" {
			c.Amb = ambients[k%nA]
		}
		return c
	}}
	chain := block{name: "chain", n: chainN(), gen: func(_ *rand.Rand, k int) Case { return genChain(k) }}
	chainStride := block{name: "chain-stride-16", n: chainN() / 16, gen: func(_ *rand.Rand, k int) Case { return genChain(k*16 + (k*7)%16) }}
	kw := kwCases()
	// malformed keyword parts: value missing, key duplicated, non-keyword in key position
	kwBad := block{name: "fn-keywords-malformed", n: len(kw) * len(kwShapes), gen: func(_ *rand.Rand, k int) Case {
		kc := kw[k/len(kwShapes)]
		args := append([]string{}, kc.req...)
		for _, a := range kwShapes[k%len(kwShapes)] {
			if a == ":K" {
				a = ":" + kc.key
			}
			args = append(args, a)
		}
		return mkFn(&targets[kc.t], args...)
	}}
	// both bounds at once: every function that documents :start and :end, behind each
	// required-argument tuple, with the pairs a caller gets wrong (start beyond end, end beyond
	// the length, equal bounds, both beyond)
	var kwSE []kwCase
	for _, kc := range kw {
		if kc.key == "start" {
			for _, k2 := range targets[kc.t].keys {
				if k2 == "end" {
					kwSE = append(kwSE, kc)
				}
			}
		}
	}
	bounds := [][2]string{{"three", "one"}, {"zero", "five"}, {"five", "zero"}, {"one", "one"}, {"five", "big62"}, {"neg1", "one"}, {"one", "nil"}}
	fnBounds := block{name: "fn-start-end-pairs", n: len(kwSE) * len(bounds), gen: func(_ *rand.Rand, k int) Case {
		kc := kwSE[k/len(bounds)]
		b := bounds[k%len(bounds)]
		args := append(append([]string{}, kc.req...), ":start", b[0], ":end", b[1])
		return mkFn(&targets[kc.t], args...)
	}}
	srcDet := block{name: "src-det", n: len(srcTexts()), gen: func(_ *rand.Rand, k int) Case { return Case{K: "src", Text: srcTexts()[k]} }}
	fnkw := block{name: "fn-keywords", n: len(kw) * P, gen: func(_ *rand.Rand, k int) Case {
		kc := kw[k/P]
		args := append(append([]string{}, kc.req...), ":"+kc.key, pool[k%P].Name)
		return mkFn(&targets[kc.t], args...)
	}}
	fnN := func(n int) block {
		return block{name: "fn-seeded-tuples", n: n, seeded: true, gen: func(r *rand.Rand, _ int) Case { return genN(r) }}
	}
	fmtDet := block{name: "fmt-det", n: fmtDetN(), gen: func(r *rand.Rand, k int) Case { return genFmt(r, k) }}
	fmtDest := block{name: "fmt-dest-det", n: fmtDestN(), gen: func(_ *rand.Rand, k int) Case { return genFmtDest(k) }}
	fmtSeed := func(n int) block {
		return block{name: "fmt-seeded", n: n, seeded: true, gen: func(r *rand.Rand, _ int) Case { return genFmt(r, fmtDetN()) }}
	}
	rdDet := block{name: "rd-det", n: rdDetN(), gen: func(r *rand.Rand, k int) Case { return genRd(r, k) }}
	rdAmb := block{name: "rd-ambient-det", n: rdAmbN(), gen: func(_ *rand.Rand, k int) Case { return genRdAmb(k) }}
	rdSeed := func(n int) block {
		return block{name: "rd-seeded", n: n, seeded: true, gen: func(r *rand.Rand, _ int) Case { return genRd(r, rdDetN()) }}
	}
	var l []block
	switch tier {
	case "thorough":
		l = []block{fn0, fn1, fn1twice, fn1in, fn0amb, fn1amb, sampled(fn2amb, 200000), send01, send2, send3, send1amb, chain, fn2, fn2num, fn3, fnkw, fnBounds, kwBad, fnN(200000),
			srcDet, fmtDet, fmtDest, fmtSeed(200000), rdDet, rdAmb, rdSeed(200000)}
	case "seeded": // development aid: the seeded blocks of the thorough tier only
		l = []block{fnN(200000), fmtSeed(200000), rdSeed(200000)}
	default:
		l = []block{fn0, fn1, sampled(fn1twice, 15000), sampled(fn1in, 20000), fn0amb, fn1ambDet, sampled(fn1amb, 15000), sampled(fn2amb, 10000),
			send01, send2q, send1amb, sampled(send2, 5000), sampled(send3, 5000), chainStride, sampled(chain, 5000),
			fn2q, fn2num, sampled(fn2, 30000), sampled(fn3, 15000), sampled(fnkw, 10000), fnBounds, sampled(kwBad, 10000), fnN(15000),
			srcDet, fmtDet, fmtDest, fmtSeed(5000), rdDet, rdAmb, rdSeed(10000)}
	}
	layouts[tier] = l
	return l
}

// inPkgs: the current packages of the fn1-in-package block.
var inPkgs = []string{"bare", "cl", "gi", "keyword", "flavors"}

// enterPkg makes the package named by c.In current; "" when it worked.
func enterPkg(in string) string {
	var p *slip.Package
	switch in {
	case "bare":
		_, _ = sl.Eval(slip.NewScope(), "(make-package 'c09-in-bare)")
		p = slip.FindPackage("c09-in-bare")
	case "cl":
		_, _ = sl.Eval(slip.NewScope(), "(defpackage 'c09-in-cl (:use \"cl\"))")
		p = slip.FindPackage("c09-in-cl")
	default:
		p = slip.FindPackage(in)
	}
	if p == nil {
		return "package " + in + " cannot be made current"
	}
	slip.CurrentPackage = p
	return ""
}

var t3cache []int

// targets3: targets that accept three or more arguments according to their
// documented lambda list (&rest, &body, &key, or >= 3 required+optional).
func targets3() []int {
	if t3cache == nil {
		loadTargets()
		t3cache = []int{}
		for i, t := range targets {
			if t.maxArgs < 0 || 3 <= t.maxArgs {
				t3cache = append(t3cache, i)
			}
		}
	}
	return t3cache
}

// kwShapes: what follows the required arguments in the malformed-keyword
// block; ":K" stands for the documented keyword.
var kwShapes = [][]string{
	{":K"},                      // value missing
	{":K", "nil", ":K"},         // value missing after a complete pair
	{":K", "nil", ":K", "zero"}, // duplicated
	{":K", "zero", ":K", "nil"},
	{":K", "list3", ":K", "str"},
	{"zero", "one"}, // non-keyword in key position
	{"str", "one"},
	{"list3", "one"},
	{"nil", "one"},
	{":K", "nil", "zero", "one"},
	{":no-such-key", "one"}, // unknown keyword
	{":K", ":K"},            // the keyword as its own value
	{":K", "values0"},
	{"unk-pkg-sym", "one"},
}

type kwCase struct {
	t   int
	req []string
	key string
}

var kwCache []kwCase

// reqTuples: plausible required arguments in front of a keyword pair.
var reqTuples = [][][]string{
	{{}},
	{{"list3"}, {"str"}, {"vector"}, {"nil"}, {"sym"}, {"nonascii-str"}, {"digits-str"}},
	{{"sym", "list3"}, {"zero", "list3"}, {"list3", "list3"}, {"str", "str"}, {"char", "str"}, {"lambda", "list3"}, {"three", "vector"}, {"char", "nonascii-str"}, {"one", "list3"}},
	{{"sym", "sym", "list3"}, {"zero", "one", "list3"}, {"str", "str", "str"}, {"lambda", "list3", "list3"}},
}

// kwCases: every documented &key of every function behind each plausible
// required-argument tuple; the keyword's value then walks the whole pool.
func kwCases() []kwCase {
	if kwCache == nil {
		loadTargets()
		kwCache = []kwCase{}
		for i, t := range targets {
			if len(t.keys) == 0 || len(reqTuples) <= t.minReq {
				continue
			}
			for _, req := range reqTuples[t.minReq] {
				for _, k := range t.keys {
					kwCache = append(kwCache, kwCase{t: i, req: req, key: k})
				}
			}
		}
	}
	return kwCache
}

func mkFn(t *target, args ...string) Case {
	if why := skipped(t.Fn, t.Raw, args); why != "" {
		return Case{K: "skip", Fn: t.Fn, Raw: t.Raw, Args: args, Why: why}
	}
	return Case{K: "fn", Fn: t.Fn, Raw: t.Raw, Args: args}
}

// devOnly: C09_ONLY=fn|fmt|rd is a development aid that turns the cases of
// the other workloads into skips; registered commands never set it.
var devOnly = os.Getenv("C09_ONLY")

func gen(r *rand.Rand, i int, tier string) Case {
	c := Case{K: "skip", Why: "out-of-range"}
	for _, b := range getLayout(tier) {
		if i < b.n {
			c = b.gen(r, i)
			break
		}
		i -= b.n
	}
	if devOnly != "" && c.K != devOnly && c.K != "skip" {
		return Case{K: "skip", Why: "dev-filter"}
	}
	return c
}

// genN: seeded tuples of 3..5 pool objects, and keyword-argument calls built
// from the documented &key names.
func genN(r *rand.Rand) Case {
	nP := len(pool)
	t := &targets[r.IntN(len(targets))]
	var args []string
	if 0 < len(t.keys) && r.IntN(2) == 0 {
		n := t.minReq
		if n == 0 && r.IntN(2) == 0 {
			n = 1
		}
		for k := 0; k < n; k++ {
			args = append(args, pool[r.IntN(nP)].Name)
		}
		for k := 1 + r.IntN(2); 0 < k; k-- {
			args = append(args, ":"+fw.Pick(r, t.keys), pool[r.IntN(nP)].Name)
		}
		return mkFn(t, args...)
	}
	n := 4 + r.IntN(2)
	for k := 0; k < n; k++ {
		args = append(args, pool[r.IntN(nP)].Name)
	}
	return mkFn(t, args...)
}

// ---------------------------------------------------------------------------
// worker state

var (
	sink         = &boundedSink{}
	baseGo       int
	envSnapshot  []string
	allocSample  = []metrics.Sample{{Name: "/gc/heap/allocs:bytes"}}
	steps        int
	budgetAt     int
	helperFn     *slip.FuncInfo
	stderrIsFile bool
	exported     []*slip.FuncInfo // every FuncInfo that was exported at start
	basePkgs     = map[*slip.Package]bool{}
)

type boundedSink struct{ n int }

func (s *boundedSink) Write(p []byte) (int, error) { s.n += len(p); return len(p), nil }

func allocBytes() uint64 {
	metrics.Read(allocSample)
	return allocSample[0].Value.Uint64()
}

func workerInit() {
	loadTargets()
	// A call that tries to allocate without bound must die quickly and must
	// not take the machine with it: cap the address space and the stack.
	lim := syscall.Rlimit{Cur: 3 << 30, Max: 3 << 30}
	_ = syscall.Setrlimit(syscall.RLIMIT_AS, &lim)
	debug.SetMaxStack(256 << 20)
	if fi, err := os.Stderr.Stat(); err == nil && fi.Mode().IsRegular() && os.Getenv("VERIF_WORKDIR") != "" {
		stderrIsFile = true
	}
	envSnapshot = os.Environ()
	for _, p := range slip.AllPackages() {
		basePkgs[p] = true
		p.EachFuncInfo(func(fi *slip.FuncInfo) {
			if fi.Export {
				exported = append(exported, fi)
			}
		})
	}
	resetStreams()
	if msg := setupWorld(); msg != "" {
		panic(msg)
	}
	cleanUser() // records the base world of cl-user
	ambInit()
	runtime.GC()
	time.Sleep(10 * time.Millisecond)
	baseGo = runtime.NumGoroutine()
}

func resetStreams() {
	slip.StandardOutput = &slip.OutputStream{Writer: sink}
	slip.ErrorOutput = &slip.OutputStream{Writer: sink}
	slip.TraceOutput = &slip.OutputStream{Writer: sink}
	slip.StandardInput = slip.NewStringStream([]byte("y\n(a b) 12 \"s\"\n"))
	slip.Interactive = false
}

// setupWorld (re-)creates the helpers the pool refers to. Returns "" or what failed.
func setupWorld() (failed string) {
	slip.CurrentPackage = &slip.UserPkg
	slip.UserPkg.Locked = false
	for _, fi := range exported {
		fi.Export = true // (unexport '(lambda (x) x)) in cl-user clears the flag of the shared FuncInfo
	}
	scope := slip.NewScope()
	try := func(src string) {
		if _, err := sl.Eval(scope, src); err != nil && failed == "" {
			failed = fmt.Sprintf("c09 setup form %s failed: %s", src, err)
		}
	}
	_ = sl.Catch(func() { slip.UserPkg.Remove("c09-var") }) // also drops a constant binding
	try("(defun c09-fn (&rest args) args)")
	try("(defvar c09-var 7)")
	try("(setq c09-var 7)")
	// a chain step may have REDEFINED a helper (another slot set), not only removed it:
	// each helper is probed through the very expression the canary uses
	works := func(src, want string) bool {
		res, err := sl.Eval(scope, src)
		return err == nil && sl.Show(res) == want
	}
	if !works("(slot-value (make-instance 'c09-class) 'a)", "1") {
		if _, err := sl.Eval(scope, "(defclass c09-class () ((a :initarg :a :initform 1)))"); err != nil || !works("(slot-value (make-instance 'c09-class) 'a)", "1") {
			_, _ = sl.Eval(scope, "(setf (find-class 'c09-class) nil)")
			try("(defclass c09-class () ((a :initarg :a :initform 1)))")
		}
	}
	if !works("(send (make-instance 'c09-flavor) :a)", "1") {
		_, _ = sl.Eval(scope, "(undefflavor 'c09-flavor)")
		try("(defflavor c09-flavor ((a 1)) () :gettable-instance-variables :settable-instance-variables)")
	}
	if !works("(c09-struct-a (make-c09-struct :a 1))", "1") {
		try("(defstruct c09-struct a b)")
	}
	helperFn = slip.FindFunc("c09-fn")
	return
}

// markContext makes a worker death attributable by signature, not only by
// case: the framework derives the signature of a crash/hang from the first
// "fatal error:" line of the worker's stderr file. The file is truncated and
// a context line in that shape is written before the call under observation;
// the real reason (Go's own fatal error / SIGQUIT dump) follows it in the
// message.
func markContext(sig string) {
	if !stderrIsFile {
		return
	}
	_ = os.Stderr.Truncate(0)
	_, _ = os.Stderr.Seek(0, 0)
	_, _ = os.Stderr.WriteString("fatal error: c09 died in " + sig + "\n")
}

func newScope() *slip.Scope {
	scope := slip.NewScope()
	steps, budgetAt = 0, stepBudget
	budgetAt = stepBudget
	scope.InterruptCheck = func() {
		steps++
		if budgetAt < steps {
			// Re-armed a little further on: building the condition for this
			// panic evaluates forms too and must not meet the budget again,
			// but a loop that swallows the condition is stopped once more.
			budgetAt = steps + 20000
			panic(budgetMsg)
		}
	}
	return scope
}

// afterCase undoes the global effects a call may have had by design and waits
// for goroutines the call started, so that a fault in one of them is
// attributed to this case.
func waitGoroutines() {
	for k := 0; baseGo < runtime.NumGoroutine() && k < 200; k++ {
		if k < 20 {
			runtime.Gosched()
		} else {
			time.Sleep(time.Millisecond)
		}
	}
}

// loggers: the logger-flavor instances the current case built. Each owns a
// writer goroutine that only ends with :shutdown.
var loggers []slip.Object

func shutdownLoggers(x *fw.Ctx, c *Case) {
	for _, lg := range loggers {
		if inst, ok := lg.(slip.Instance); ok && !(len(c.Args) > 1 && c.Args[1] == ":shutdown") && !(len(c.After) == 2 && strings.Contains(c.After[1], ":shutdown")) {
			done := make(chan bool, 1)
			go func() {
				_ = sl.Catch(func() { inst.Receive(slip.NewScope(), ":shutdown", nil, 0) })
				done <- true
			}()
			select {
			case <-done:
			case <-time.After(500 * time.Millisecond):
				x.Cover("logger-shutdown-timeout")
			}
		}
	}
	loggers = loggers[:0]
}

func afterCase(x *fw.Ctx, c *Case) {
	shutdownLoggers(x, c)
	waitGoroutines()
	if baseGo < runtime.NumGoroutine() {
		x.Cover("goroutines-left-running")
		baseGo = runtime.NumGoroutine()
	}
	slip.CurrentPackage = &slip.UserPkg
	slip.Untrace(nil)
	resetStreams()
	if strings.Contains(c.Fn, "env") {
		os.Clearenv()
		for _, kv := range envSnapshot {
			if k, v, ok := strings.Cut(kv, "="); ok {
				_ = os.Setenv(k, v)
			}
		}
	}
	_ = sl.Catch(func() {
		// packages the case made (or renamed the scratch package to)
		for _, p := range slip.AllPackages() {
			if !basePkgs[p] {
				slip.RemovePackage(p)
			}
		}
		// definitions under the pool's symbols
		if slip.FindClass("foo") != nil {
			_, _ = sl.Eval(slip.NewScope(), "(undefflavor 'foo)")
		}
		slip.UserPkg.Undefine("foo")
		slip.UserPkg.Remove("foo")
		slip.UserPkg.Remove("c09-fn") // a variable of that name; the function stays
	})
}

const canarySrc = "(list (+ 1 2) (c09-fn 4) c09-var (car '(5)) ((lambda (x) x) 6) (slot-value (make-instance 'c09-class) 'a) (send (make-instance 'c09-flavor) :a) (c09-struct-a (make-c09-struct :a 1)))"
const canaryWant = "(3 (4) 7 5 6 1 1 1)"

// canary: the interpreter still works after the case.
func canary(x *fw.Ctx, what string) {
	scope := slip.NewScope()
	res, err := sl.Eval(scope, canarySrc)
	pkgsOK := len(slip.AllPackages()) == len(basePkgs)
	if err == nil && sl.Show(res) == canaryWant && slip.FindFunc("c09-fn") == helperFn && pkgsOK {
		return
	}
	// A helper was redefined or removed through one of the pool's own symbols
	// ((defun c09-fn ...), (makunbound 'c09-var), (unexport '(lambda (x) x))
	// ...): that is what those functions are for. Restore and look again.
	x.Cover("world-restored")
	msg := setupWorld()
	if msg == "" && pkgsOK {
		res, err = sl.Eval(scope, canarySrc)
		if err == nil && sl.Show(res) == canaryWant {
			return
		}
	}
	if !pkgsOK {
		msg += " (a package that existed at start is gone)"
	}
	// The interpreter of this worker is damaged beyond the by-design effects:
	// nothing it says about later cases would mean anything. The worker ends
	// here, inside the case, so the framework attributes the death to this
	// case, reports it under the signature written by markContext, and
	// starts a fresh worker for the rest of the batch.
	markContext("world broken after " + what)
	fmt.Fprintf(os.Stderr, "after %s the interpreter no longer evaluates the canary %s:\n result %s\n error %s\n restore: %s\n", what, canarySrc, sl.Show(res), err, msg)
	os.Exit(3)
}

// ---------------------------------------------------------------------------
// judging

var digitRun = regexp.MustCompile(`[0-9]+`)

// faultKind normalises the text of a Go runtime fault: the kind plus the
// detail that separates root causes (which side of the bounds, which Go
// types), with numbers other than the sign dropped.
func faultKind(msg string) string {
	if i := strings.Index(msg, "index out of range ["); 0 <= i {
		rest := msg[i+len("index out of range ["):]
		switch {
		case strings.HasPrefix(rest, "-"):
			return "index[neg]"
		case strings.Contains(rest, "with length 0"):
			return "index[len0]"
		}
		return "index[>=len]"
	}
	if i := strings.Index(msg, "slice bounds out of range "); 0 <= i {
		rest := msg[i+len("slice bounds out of range "):]
		if j := strings.IndexByte(rest, ']'); 0 < j {
			rest = rest[:j+1]
		}
		return "slice-bounds" + digitRun.ReplaceAllString(rest, "N")
	}
	if i := strings.Index(msg, "interface conversion: "); 0 <= i {
		rest := msg[i+len("interface conversion: "):]
		if j := strings.Index(rest, ": missing method"); 0 < j {
			rest = rest[:j]
		}
		// "slip.Object is slip.Fixnum, not slip.Character": the type found is
		// the argument's, the type wanted names the unchecked assertion
		if j := strings.LastIndex(rest, ", not "); 0 <= j {
			rest = rest[j+2:]
		}
		rest = strings.ReplaceAll(rest, "github.com/ohler55/slip/", "")
		rest = strings.ReplaceAll(rest, "interface {}", "any")
		return "type-assertion[" + strings.ReplaceAll(strings.TrimSpace(rest), " ", "_") + "]"
	}
	for _, p := range [][2]string{
		{"nil pointer dereference", "nil-deref"},
		{"invalid memory address", "nil-deref"},
		{"hash of unhashable", "unhashable"},
		{"integer divide by zero", "int-div-zero"},
		{"makeslice: len", "makeslice-len"},
		{"makeslice: cap", "makeslice-cap"},
		{"makeslice", "makeslice"},
		{"negative shift amount", "neg-shift"},
		{"assignment to entry in nil map", "nil-map"},
		{"strings: negative Repeat", "neg-repeat"},
		{"bytes.Buffer", "bytes-buffer"},
		{"reflect:", "reflect"},
		{"out of memory", "oom"},
		{"makechan:", "makechan"},
	} {
		if strings.Contains(msg, p[0]) {
			return p[1]
		}
	}
	return "other"
}

type outcome struct {
	kind  string // value | condition | fault | raw-panic | budget | undocumented
	fault string
	err   *sl.Err
}

func classify(err *sl.Err) outcome {
	switch {
	case err == nil:
		return outcome{kind: "value"}
	case strings.Contains(err.Msg, budgetMsg):
		return outcome{kind: "budget", err: err}
	case err.Partial:
		return outcome{kind: "condition", err: err}
	case err.Class == "go-runtime-error" || sl.LooksInternal(err.Msg) || strings.Contains(err.Msg, "makechan:") || strings.Contains(err.Msg, "makemap:"):
		return outcome{kind: "fault", fault: faultKind(err.Msg), err: err}
	case err.Internal:
		// a bare Go panic value (string, error) reached the caller: not a
		// runtime fault, but not a Lisp condition either
		return outcome{kind: "raw-panic", err: err}
	case !err.IsA("condition"):
		return outcome{kind: "undocumented", err: err}
	}
	return outcome{kind: "condition", err: err}
}

func classesOf(args []string) string {
	cs := make([]string, len(args))
	for i, a := range args {
		switch {
		case strings.HasPrefix(a, ":"):
			cs[i] = a
		case a == "@":
			cs[i] = "@"
		case poolIndex[a] != nil:
			cs[i] = poolIndex[a].Class
		default:
			cs[i] = "?"
		}
	}
	return "(" + strings.Join(cs, ",") + ")"
}

func inText(c *Case) string {
	switch c.In {
	case "":
		return ""
	case "bare":
		return " [evaluated after (in-package (make-package 'p))]"
	case "cl":
		return " [evaluated after (in-package (defpackage 'p (:use \"cl\")))]"
	}
	return " [evaluated after (in-package '" + c.In + ")]"
}

// fnSig names the failing construct: what went wrong (fault kind with its
// detail) in which function and calling mode. The argument tuple is in the
// message and the witness, not in the signature: one missing guard shows up
// for dozens of argument tuples.
func fnSig(c *Case, what string) string {
	if flavor, method, ok := sendOf(c); ok {
		// a built-in method: the failing construct is the method, not send
		return sigName(what + " send=" + flavor + " " + method)
	}
	if c.Raw {
		return sigName(what + " fn=" + c.Fn + " raw")
	}
	return sigName(what + " fn=" + c.Fn)
}

// sigName: '*' is the wildcard of known_findings.json signatures, so it is
// spelled out in names (do* -> do<star>).
func sigName(s string) string { return strings.ReplaceAll(s, "*", "<star>") }

func renderCall(c *Case) string {
	var b strings.Builder
	b.WriteString("(" + c.Fn)
	for _, a := range c.Args {
		b.WriteByte(' ')
		if po := poolIndex[a]; po != nil {
			b.WriteString(po.Src)
		} else if a == "@" {
			b.WriteString("c09-o")
		} else {
			b.WriteString(a)
		}
	}
	b.WriteString(")")
	if 2 == len(c.After) {
		src := c.After[0]
		if po := poolIndex[src]; po != nil {
			src = po.Src
		}
		return "(let ((c09-o " + src + ")) (ignore-errors " + c.After[1] + ") " + b.String() + ")"
	}
	if c.Raw {
		b.WriteString(" [raw: at unevaluated positions the object itself, unquoted]")
	}
	return b.String()
}

// buildArg evaluates a pool expression in scope.
func buildArg(scope *slip.Scope, po *poolObj) (slip.Object, string) {
	if po.Form {
		return slip.ReadString(po.Src, scope)[0], ""
	}
	if po.Make != nil {
		return po.Make(), ""
	}
	obj, err := sl.Eval(scope, po.Src)
	if err == nil && po.Name == "i-logger-flavor" {
		loggers = append(loggers, obj)
	}
	if err != nil {
		// a previous case damaged a helper: restore and retry once
		setupWorld()
		if obj, err = sl.Eval(scope, po.Src); err != nil {
			return nil, fmt.Sprintf("pool object %s = %s cannot be built: %s", po.Name, po.Src, err)
		}
	}
	return obj, ""
}

// buildForm builds the call form of a function case: the function symbol and
// one fresh object per argument, quoted where the function evaluates the
// position. emptyValues tells that (values) sits at an evaluated position.
func buildForm(scope *slip.Scope, c *Case) (form slip.List, emptyValues bool, herr string) {
	fi := slip.FindFunc(c.Fn)
	if fi == nil {
		return nil, false, fmt.Sprintf("function %s not found", c.Fn)
	}
	var se skipEvaler
	if c.Raw {
		_ = sl.Catch(func() { se, _ = fi.Create(slip.List{}).(skipEvaler) })
	}
	form = make(slip.List, 0, len(c.Args)+1)
	form = append(form, slip.Symbol(c.Fn))
	for i, a := range c.Args {
		if strings.HasPrefix(a, ":") {
			form = append(form, slip.Symbol(a))
			continue
		}
		if a == "@" { // chain cases: the object of the history
			form = append(form, slip.Symbol("c09-o"))
			continue
		}
		po := poolIndex[a]
		if po == nil {
			return nil, false, "unknown pool object " + a
		}
		obj, e := buildArg(scope, po)
		if e != "" {
			return nil, false, e
		}
		raw := se != nil && se.SkipArgEval(i)
		switch {
		case po.Form:
			form = append(form, obj)
			if po.Name == "values0" && !raw {
				emptyValues = true
			}
		case raw:
			form = append(form, obj)
		default:
			form = append(form, slip.List{slip.Symbol("quote"), obj})
		}
	}
	return
}

// fnContext names a call for the signature of a worker death: the function,
// the mode, and the argument classes that make a call hostile (huge counts,
// closed streams, deep nesting ...); ordinary classes are written as _.
func fnContext(c *Case) string {
	ctx := "fn=" + sigName(c.Fn)
	if c.Raw {
		ctx += " raw"
	}
	if flavor, method, ok := sendOf(c); ok {
		ctx = "send=" + flavor + " " + method
	}
	if 2 < len(c.Args) {
		return ctx + " args=3+"
	}
	cs := make([]string, len(c.Args))
	for i, a := range c.Args {
		cs[i] = "_"
		if po := poolIndex[a]; po != nil && hostileClass[po.Class] {
			cs[i] = po.Class
		}
	}
	return ctx + " args=(" + strings.Join(cs, ",") + ")"
}

var hostileClass = map[string]bool{"big40": true, "hugefix": true, "closedstream": true, "closedchannel": true}

func execFn(x *fw.Ctx, c *Case) {
	pkgName, _, _ := strings.Cut(c.Fn, ":")
	x.Cover("pkg:" + pkgName)
	x.Cover(fmt.Sprintf("arity:%d", min(len(c.Args), 6)))
	if c.Raw {
		x.Cover("mode:raw")
	}
	scope := newScope()
	form, _, herr := buildForm(scope, c)
	if herr != "" {
		x.Fail("harness-pool", "%s", herr)
		return
	}
	steps, budgetAt = 0, stepBudget
	ctx := fnContext(c)
	insig := ""
	if c.In != "" {
		x.Cover("in-package:" + c.In)
		if herr = enterPkg(c.In); herr != "" {
			x.Fail("harness-pool", "%s", herr)
			return
		}
		ctx += " in=" + c.In
		insig = " in=" + c.In
	}
	var evalForm slip.Object = form
	if len(c.After) == 2 {
		x.Cover("chain:" + c.After[0])
		if evalForm, herr = chainWrap(scope, c, form, true); herr != "" {
			x.Fail("harness-pool", "%s", herr)
			return
		}
		// the step comes first: a crash signature is cut after 100 characters
		ctx = "chain after=" + sigName(c.After[1]) + " " + ctx
		insig = " after=" + sigName(c.After[1])
	}
	if c.Amb != "" {
		x.Cover("ambient:" + c.Amb)
		if evalForm, herr = ambEnter(c.Amb, form); herr != "" {
			ambLeave()
			x.Fail("harness-pool", "%s", herr)
			return
		}
		ctx += " amb=" + c.Amb
		insig = " amb=" + c.Amb
	}
	markContext(ctx)
	a0 := allocBytes()
	var res slip.Object
	err := sl.Catch(func() { res = scope.Eval(evalForm, 0) })
	if c.Amb != "" {
		err = ambOutcome(c.Amb, res, err)
		ambLeave()
		x.Cover("ambient-outcome:" + c.Amb + ":" + classify(err).kind)
	}
	if len(c.After) == 2 {
		x.Cover("chain-outcome:" + classify(err).kind)
	}
	if c.In != "" || c.Amb != "" || len(c.After) == 2 {
		slip.CurrentPackage = &slip.UserPkg
		if o1 := classify(err); o1.kind == "fault" || o1.kind == "raw-panic" || o1.kind == "undocumented" || o1.kind == "budget" {
			if len(c.After) == 2 {
				// the first step may have redefined or removed a helper of the pool
				afterCase(x, c)
				setupWorld()
			}
			// Differential: the same call with the user package current and the
			// default state. When it fails in the same way there, the failure
			// belongs to the function (signature without in= / amb=), otherwise to
			// the current package / the ambient state.
			if form2, _, e2 := buildForm(scope, c); e2 == "" {
				var eval2 slip.Object = form2
				if len(c.After) == 2 {
					eval2, e2 = chainWrap(scope, c, form2, false)
				}
				steps, budgetAt = 0, stepBudget
				err2 := sl.Catch(func() { _ = scope.Eval(eval2, 0) })
				if o2 := classify(err2); e2 == "" && o2.kind == o1.kind && o2.fault == o1.fault {
					insig = ""
					switch {
					case c.In != "":
						x.Cover("in-package:same-failure-in-user-package")
					case c.Amb != "":
						x.Cover("ambient:same-failure-in-default-state")
					default:
						x.Cover("chain:same-failure-on-a-fresh-object")
					}
				}
			}
		}
	}
	again := ""
	if c.Twice {
		x.Cover("mode:twice")
		if o1 := classify(err); o1.kind == "value" || o1.kind == "condition" {
			waitGoroutines() // a thread the first evaluation started dies under the first context
			markContext(ctx + " again")
			steps, budgetAt = 0, stepBudget
			err = sl.Catch(func() { res = scope.Eval(form, 0) })
			again = " again"
		}
	}
	used := allocBytes() - a0
	x.CoverN("eval-steps", steps)
	oc := classify(err)
	obs := map[string]any{"call": renderCall(c) + again, "outcome": oc.kind}
	x.Observe(obs)
	switch oc.kind {
	case "value":
		x.Cover("outcome:value")
		obs["value-kind"] = sl.Kind(res)
	case "condition":
		x.Cover("outcome:condition")
		x.Cover("condition:" + oc.err.Class)
		obs["condition"] = oc.err.Class
	case "fault":
		x.Cover("outcome:internal-fault")
		x.Fail(fnSig(c, "fault="+oc.fault)+again+insig, "%s%s%s => internal fault reported as %s: %s", renderCall(c), inText(c)+ambText(c.Amb),
			map[bool]string{true: " [the same form evaluated a second time]", false: ""}[again != ""], oc.err.Class, oc.err.Msg)
	case "raw-panic":
		x.Cover("outcome:raw-go-panic")
		x.Fail(fnSig(c, "raw-go-panic")+insig, "%s%s => a bare Go panic value (%s) instead of a condition: %s", renderCall(c), inText(c)+ambText(c.Amb), oc.err.GoType, oc.err.Msg)
	case "budget":
		x.Cover("outcome:over-step-budget")
		x.Fail(fnSig(c, "over-budget")+insig, "%s%s => more than %d evaluation steps", renderCall(c), inText(c)+ambText(c.Amb), stepBudget)
	case "undocumented":
		if c.Fn == "gi:panic" {
			// documented dialect: (panic obj) raises obj itself, whatever it is
			x.Cover("outcome:gi-panic-raises-object")
			break
		}
		x.Cover("outcome:undocumented-class")
		x.Fail(fnSig(c, "not-a-condition")+insig, "%s%s => signalled something that is not a condition: chain %v: %s", renderCall(c), inText(c)+ambText(c.Amb), oc.err.Chain, oc.err.Msg)
	}
	if allocBudget < used {
		x.Cover("outcome:over-alloc-budget")
		x.Fail(fnSig(c, "alloc"), "%s => allocated %d MiB in one call", renderCall(c), used>>20)
	}
	afterCase(x, c)
	canary(x, "fn="+sigName(c.Fn))
}

// devSlow: C09_SLOWLOG=<ms> (development aid) counts cases slower than the
// threshold per function; never set by registered commands, never in a verdict.
var devSlow, _ = strconv.Atoi(os.Getenv("C09_SLOWLOG"))

func exec(x *fw.Ctx, c Case) {
	if 0 < devSlow {
		t0 := time.Now()
		defer func() {
			if d := time.Since(t0); time.Duration(devSlow)*time.Millisecond < d {
				x.CoverN("slow-ms:"+c.K+":"+c.Fn+":"+c.Via, int(d.Milliseconds()))
			}
		}()
	}
	switch c.K {
	case "": // a null witness
		x.Trivial()
	case "src":
		execSrc(x, &c)
	case "probe":
		execProbe(x, &c)
	case "skip":
		x.Trivial()
		x.Cover("avoided:" + c.Why)
	case "fn":
		execFn(x, &c)
	case "fmt":
		execFmt(x, &c)
	case "rd":
		execRd(x, &c)
	default:
		x.Fail("harness-case", "unknown case kind %q", c.K)
	}
}

// hangSecs: the no-progress watchdog. C09_HANGSECS is a development aid
// (shorter watchdog while hunting for hanging constructs); registered
// commands never set it.
func hangSecs() int {
	if n, err := strconv.Atoi(os.Getenv("C09_HANGSECS")); err == nil && 0 < n {
		return n
	}
	return 20
}

func init() {
	fw.Register(fw.Spec[Case]{
		ID: "C09",
		Rule: "(1) every exported function of every linked package (run-time enumeration; documented denylist of functions whose purpose is an effect outside " +
			"the process or blocking) in quoted-argument mode and, for special forms/macros, additionally with the bare objects at unevaluated positions, x every 0-, 1- " +
			"and 2-tuple of a pool of 66 fresh objects: the representative objects of all types plus hostile ones (2^40, 2^62, 2^70, -2^63 as counts and indices, " +
			"improper lists, a 4000-deep list, strings with invalid UTF-8 and NUL, closed streams and channel, symbols with the prefix of an unknown package, (values)); " +
			"thorough: exhaustive; quick: all 0/1-tuples, all pairs of a 20-object pool, seeded samples of the rest; every 1-tuple also with the form evaluated twice " +
			"(destructive functions on their own literal); every 3-tuple of a 14-object pool for functions that accept 3 arguments; every documented &key with every " +
			"pool value, and with the value missing, the key duplicated, a non-keyword or unknown keyword in key position; seeded 4..5-tuples; (2) 750 hostile " +
			"program texts read and evaluated plainly and through Code.Compile: misuse of every special form and definer, dotted forms, quasi-quote misuse, reader " +
			"labels, unknown package prefixes, destructive functions on literals in loops, 2 000..10 000-deep nested programs, unbounded recursion; (3) format: " +
			"every directive x modifier x parameter shape x pool argument, block/unbalanced templates, seeded compositions (only: no host fault); (4) reader: every " +
			"byte string of length <=3 over a 40-byte alphabet, all #-dispatch pairs, 1 MiB / 10 000-deep stress texts, seeded corpus mutations, 4 delivery paths. " +
			"One call/read per case, argument objects built afresh for every case. distinct = distinct case; non-trivial = not an avoided construct; every avoided " +
			"construct is counted under avoided:<reason> (skip table entry with its finding, or non-terminating by definition)",
		N:                func(tier string) int { return total(getLayout(tier)) },
		Gen:              gen,
		Exec:             exec,
		Init:             workerInit,
		Batch:            2000,
		HangSecs:         hangSecs(),
		CrashIsViolation: true,
		Assumptions: []string{
			"an internal fault is recognised hook-free: a recovered value that is not a slip condition, or a condition whose message carries a Go runtime fault text (sl.LooksInternal)",
			"standard streams are rebound to in-memory streams; stdin readers therefore read a fixed string, not the process stdin",
			"worker address space capped at 3 GiB and Go stack at 256 MiB so that unbounded allocation/recursion dies quickly (fatal error) instead of exhausting the machine",
			"hang = no case completed for HangSecs (20 s) wall time; the calls are microsecond-scale, so machine load cannot produce one",
			"constructs that hang or loop by definition are in the skip table (internal/c09/skiptable.go) and are not generated",
		},
	})
}

// ---------------------------------------------------------------------------
// Probes: witnesses of findings that never return. A construct that hangs or
// exhausts memory cannot be part of the case list (each costs the watchdog
// time and a worker), but its finding should still be re-observed on every
// run, and be seen to disappear when it is repaired. A probe case
// ({"k":"probe","sub":"fn"|"fmt", ...the inner case...}) runs the inner call
// in a process of its own (this binary, -sub c09-probe) under the worker's
// address-space cap and waits probeSecs for it. No outcome within that time,
// or death by memory exhaustion, is reported as `hang-or-oom <construct>`;
// the calls are microsecond-scale when they work, so the margin is 10^6.
const probeSecs = 4

func probeSig(c *Case) string {
	if c.Sub == "fmt" {
		return sigName(fmt.Sprintf("hang-or-oom fmt ctl=%q args=%s", c.Ctl, classesOf(c.Args)))
	}
	return "hang-or-oom " + fnContext(c)
}

func execProbe(x *fw.Ctx, c *Case) {
	inner := *c
	inner.K = c.Sub
	raw, _ := json.Marshal(inner)
	dir := os.Getenv("VERIF_WORKDIR")
	if dir == "" {
		dir = os.TempDir()
	}
	x.Cover("probes")
	res := fw.RunSub("c09-probe", []string{string(raw)}, nil, dir, probeSecs*time.Second)
	what := renderCall(&inner)
	if c.Sub == "fmt" {
		what = renderFmt(c.Ctl, c.Args)
	}
	obs := map[string]any{"call": what, "timed-out": res.TimedOut, "exit": res.Exit, "stdout": string(res.Stdout)}
	x.Observe(obs)
	switch {
	case res.TimedOut:
		x.Fail(probeSig(c), "%s => no outcome after %d s in a process of its own (hang)", what, probeSecs)
	case res.Exit != 0 && strings.Contains(string(res.Stderr), "out of memory"):
		x.Fail(probeSig(c), "%s => the process died: fatal error: out of memory", what)
	case res.Exit != 0:
		x.Fail("probe-died "+probeSig(c), "%s => probe process ended with status %d: %s", what, res.Exit, firstLines(string(res.Stderr), 5))
	default:
		x.Cover("probe-returned")
	}
}

func firstLines(s string, n int) string {
	ls := strings.Split(s, "\n")
	if n < len(ls) {
		ls = ls[:n]
	}
	return strings.Join(ls, "\n")
}

func probeMain(args []string) int {
	var c Case
	if len(args) != 1 || json.Unmarshal([]byte(args[0]), &c) != nil {
		fmt.Fprintln(os.Stderr, "usage: -sub c09-probe <case json>")
		return 2
	}
	workerInit() // same address-space cap as a worker
	scope := newScope()
	var err *sl.Err
	switch c.K {
	case "fn":
		form, _, herr := buildForm(scope, &c)
		if herr != "" {
			fmt.Fprintln(os.Stderr, herr)
			return 3
		}
		err = sl.Catch(func() { _ = scope.Eval(form, 0) })
	case "fmt":
		var herr string
		if _, err, herr = fmtCall(scope, c.Dest, c.Ctl, c.Args); herr != "" {
			fmt.Fprintln(os.Stderr, herr)
			return 3
		}
	default:
		return 2
	}
	fmt.Printf("outcome: %s\n", classify(err).kind)
	return 0
}

func init() { fw.RegisterSub("c09-probe", probeMain) }
