// Package c09 walks the cross product built-in function x argument tuple
// (and format control strings, and reader inputs) on the real interpreter and
// checks that every outcome is a value or a Lisp condition of a documented
// class: never a Go runtime fault dressed up as an error, a dead process, an
// unbounded allocation or a hang.
package c09

import (
	"fmt"
	"math/rand/v2"
	"os"
	"runtime"
	"runtime/debug"
	"runtime/metrics"
	"strconv"
	"strings"
	"syscall"
	"time"

	"github.com/ohler55/slip"

	"verif/internal/fw"
	"verif/internal/sl"
)

// Case is one call, one format call or one read.
type Case struct {
	K    string   `json:"k"`              // fn | fmt | rd | skip
	Fn   string   `json:"fn,omitempty"`   // pkg:name
	Raw  bool     `json:"raw,omitempty"`  // unevaluated positions get the bare object
	Args []string `json:"args,omitempty"` // pool names; ":xyz" = a literal keyword
	Ctl  string   `json:"ctl,omitempty"`  // format control string
	Src  []byte   `json:"src,omitempty"`  // reader input
	Via  string   `json:"via,omitempty"`  // reader delivery: bytes | stream | rfs
	Why  string   `json:"why,omitempty"`  // skip: the finding the construct belongs to
}

const (
	stepBudget  = 1_000_000 // evaluation steps (Function.Eval entries) per case
	allocBudget = 256 << 20 // bytes allocated by one call on pool arguments
	budgetMsg   = "c09-step-budget-exceeded"
)

// ---------------------------------------------------------------------------
// case list layout

type layout struct {
	nT, nP                        int
	a0, a1, a2, a3, aN, fmt0, rd0 int // block starts
	n2, n3, nN, nFmt, nRd         int
	total                         int
	tier                          string
}

var layouts = map[string]*layout{}

func getLayout(tier string) *layout {
	if l := layouts[tier]; l != nil {
		return l
	}
	loadTargets()
	l := &layout{nT: len(targets), nP: len(pool), tier: tier}
	l.a0 = 0
	l.a1 = l.a0 + l.nT
	l.a2 = l.a1 + l.nT*l.nP
	if tier == "thorough" {
		l.n2 = l.nT * l.nP * l.nP
		l.n3 = len(targets3()) * len(smallPool) * len(smallPool) * len(smallPool)
		l.nN = 300000
		l.nFmt = fmtDetN() + 200000
		l.nRd = rdDetN() + 200000
	} else {
		l.n2 = 60000
		l.n3 = 10000
		l.nN = 20000
		l.nFmt = fmtDetN() + 5000
		l.nRd = rdDetN() + 10000
	}
	l.a3 = l.a2 + l.n2
	l.aN = l.a3 + l.n3
	l.fmt0 = l.aN + l.nN
	l.rd0 = l.fmt0 + l.nFmt
	l.total = l.rd0 + l.nRd
	layouts[tier] = l
	return l
}

var t3cache []int

// targets3: targets whose documented lambda list has at least 3 required
// arguments; no 0-, 1- or 2-tuple gets past their arity guard.
func targets3() []int {
	if t3cache == nil {
		loadTargets()
		t3cache = []int{}
		for i, t := range targets {
			if 3 <= t.minReq {
				t3cache = append(t3cache, i)
			}
		}
	}
	return t3cache
}

func mkFn(t *target, args ...string) Case {
	if why := skipped(t.Fn, t.Raw, args); why != "" {
		return Case{K: "skip", Fn: t.Fn, Raw: t.Raw, Args: args, Why: why}
	}
	return Case{K: "fn", Fn: t.Fn, Raw: t.Raw, Args: args}
}

func gen(r *rand.Rand, i int, tier string) Case {
	l := getLayout(tier)
	P := l.nP
	switch {
	case i < l.a1:
		return mkFn(&targets[i])
	case i < l.a2:
		k := i - l.a1
		return mkFn(&targets[k/P], pool[k%P].Name)
	case i < l.a3:
		k := i - l.a2
		if tier != "thorough" {
			k = r.IntN(l.nT * P * P)
		}
		return mkFn(&targets[k/(P*P)], pool[(k/P)%P].Name, pool[k%P].Name)
	case i < l.aN:
		k := i - l.a3
		t3 := targets3()
		S := len(smallPool)
		if tier != "thorough" {
			k = r.IntN(len(t3) * S * S * S)
		}
		return mkFn(&targets[t3[k/(S*S*S)]], smallPool[(k/(S*S))%S], smallPool[(k/S)%S], smallPool[k%S])
	case i < l.fmt0:
		return genN(r, l)
	case i < l.rd0:
		return genFmt(r, i-l.fmt0)
	}
	return genRd(r, i-l.rd0)
}

// genN: seeded tuples of 3..5 pool objects, and keyword-argument calls built
// from the documented &key names.
func genN(r *rand.Rand, l *layout) Case {
	t := &targets[r.IntN(l.nT)]
	var args []string
	if 0 < len(t.keys) && r.IntN(2) == 0 {
		n := t.minReq
		if n == 0 && r.IntN(2) == 0 {
			n = 1
		}
		for k := 0; k < n; k++ {
			args = append(args, pool[r.IntN(l.nP)].Name)
		}
		for k := 1 + r.IntN(2); 0 < k; k-- {
			args = append(args, ":"+fw.Pick(r, t.keys), pool[r.IntN(l.nP)].Name)
		}
		return mkFn(t, args...)
	}
	n := 3 + r.IntN(3)
	for k := 0; k < n; k++ {
		args = append(args, pool[r.IntN(l.nP)].Name)
	}
	return mkFn(t, args...)
}

// ---------------------------------------------------------------------------
// worker state

var (
	sink         = &boundedSink{}
	baseGo       int
	envSnapshot  []string
	allocSample  = []metrics.Sample{{Name: "/gc/heap/allocs:bytes"}}
	steps        int
	helperFns    = map[string]*slip.FuncInfo{}
	stderrIsFile bool
)

type boundedSink struct{ n int }

func (s *boundedSink) Write(p []byte) (int, error) { s.n += len(p); return len(p), nil }

func allocBytes() uint64 {
	metrics.Read(allocSample)
	return allocSample[0].Value.Uint64()
}

func workerInit() {
	loadTargets()
	// A call that tries to allocate without bound must die quickly and must
	// not take the machine with it: cap the address space and the stack.
	lim := syscall.Rlimit{Cur: 6 << 30, Max: 6 << 30}
	_ = syscall.Setrlimit(syscall.RLIMIT_AS, &lim)
	debug.SetMaxStack(256 << 20)
	debug.SetGCPercent(100)
	if fi, err := os.Stderr.Stat(); err == nil && fi.Mode().IsRegular() && os.Getenv("VERIF_WORKDIR") != "" {
		stderrIsFile = true
	}
	envSnapshot = os.Environ()
	resetStreams()
	setupWorld()
	runtime.GC()
	time.Sleep(10 * time.Millisecond)
	baseGo = runtime.NumGoroutine()
}

func resetStreams() {
	slip.StandardOutput = &slip.OutputStream{Writer: sink}
	slip.ErrorOutput = &slip.OutputStream{Writer: sink}
	slip.TraceOutput = &slip.OutputStream{Writer: sink}
	slip.StandardInput = slip.NewStringStream([]byte("y\n(a b) 12 \"s\"\n"))
	slip.Interactive = false
}

func setupWorld() {
	slip.CurrentPackage = &slip.UserPkg
	scope := slip.NewScope()
	for _, f := range setupForms {
		if _, err := sl.Eval(scope, f); err != nil {
			panic(fmt.Sprintf("c09 setup form %s failed: %s", f, err))
		}
	}
	helperFns["c09-fn"] = slip.FindFunc("c09-fn")
}

// markContext makes a worker death attributable by signature, not only by
// case: the framework derives the signature of a crash/hang from the first
// "fatal error:" line of the worker's stderr file. The file is truncated and
// a context line in that shape is written before the call under observation;
// the real reason (Go's own fatal error / SIGQUIT dump) follows it in the
// message.
func markContext(sig string) {
	if !stderrIsFile {
		return
	}
	_ = os.Stderr.Truncate(0)
	_, _ = os.Stderr.Seek(0, 0)
	_, _ = os.Stderr.WriteString("fatal error: c09 died in " + sig + "\n")
}

func newScope() *slip.Scope {
	scope := slip.NewScope()
	steps = 0
	scope.InterruptCheck = func() {
		steps++
		if stepBudget < steps {
			panic(budgetMsg)
		}
	}
	return scope
}

// afterCase undoes the global effects a call may have had by design and waits
// for goroutines the call started, so that a fault in one of them is
// attributed to this case.
func afterCase(x *fw.Ctx, c *Case) {
	for k := 0; baseGo < runtime.NumGoroutine() && k < 200; k++ {
		if k < 20 {
			runtime.Gosched()
		} else {
			time.Sleep(time.Millisecond)
		}
	}
	if baseGo < runtime.NumGoroutine() {
		x.Cover("goroutines-left-running")
		baseGo = runtime.NumGoroutine()
	}
	slip.CurrentPackage = &slip.UserPkg
	slip.Untrace(nil)
	resetStreams()
	if strings.Contains(c.Fn, "env") {
		os.Clearenv()
		for _, kv := range envSnapshot {
			if k, v, ok := strings.Cut(kv, "="); ok {
				_ = os.Setenv(k, v)
			}
		}
	}
	_ = sl.Catch(func() {
		if p := slip.FindPackage("c09-scratch"); p != nil {
			slip.RemovePackage(p)
		}
		slip.UserPkg.Undefine("foo")
		slip.UserPkg.Remove("foo")
		if slip.UserPkg.Locked {
			slip.UserPkg.Locked = false
		}
	})
}

// canary: the interpreter still works after the case.
func canary(x *fw.Ctx, what string) {
	ok := false
	scope := slip.NewScope()
	res, err := sl.Eval(scope, "(list (+ 1 2) (c09-fn 4) c09-var (car '(5)) (find-class 'c09-class) (find-flavor 'c09-flavor) (make-c09-struct))")
	if err == nil {
		if l, _ := res.(slip.List); len(l) == 7 && sl.Show(l[0]) == "3" && sl.Show(l[1]) == "(4)" && sl.Show(l[2]) == "7" && sl.Show(l[3]) == "5" {
			ok = true
		}
	}
	if ok && slip.FindFunc("c09-fn") == helperFns["c09-fn"] {
		return
	}
	// a helper was redefined or removed through one of the pool's own
	// symbols (defun c09-fn ..., (makunbound 'c09-var), ...): by design.
	// Restore and look again.
	x.Cover("world-restored")
	if e := sl.Catch(setupWorld); e == nil {
		res, err = sl.Eval(scope, "(list (+ 1 2) (c09-fn 4) c09-var (car '(5)))")
		if err == nil && sl.Show(res) == "(3 (4) 7 5)" {
			return
		}
	}
	x.Fail("canary-after "+what, "after %s the interpreter no longer evaluates the canary forms: result %s, error %s", what, sl.Show(res), err)
}

// ---------------------------------------------------------------------------
// judging

// faultKind normalises the text of a Go runtime fault.
func faultKind(msg string) string {
	for _, p := range [][2]string{
		{"index out of range", "index"},
		{"slice bounds out of range", "slice-bounds"},
		{"nil pointer dereference", "nil-deref"},
		{"invalid memory address", "nil-deref"},
		{"interface conversion", "type-assertion"},
		{"hash of unhashable", "unhashable"},
		{"integer divide by zero", "int-div-zero"},
		{"makeslice", "makeslice"},
		{"negative shift amount", "neg-shift"},
		{"assignment to entry in nil map", "nil-map"},
		{"strings: negative Repeat", "neg-repeat"},
		{"bytes.Buffer", "bytes-buffer"},
		{"reflect:", "reflect"},
		{"out of memory", "oom"},
	} {
		if strings.Contains(msg, p[0]) {
			return p[1]
		}
	}
	return "other"
}

type outcome struct {
	kind  string // value | condition | fault | budget | undocumented
	fault string
	err   *sl.Err
}

func classify(err *sl.Err) outcome {
	switch {
	case err == nil:
		return outcome{kind: "value"}
	case strings.Contains(err.Msg, budgetMsg):
		return outcome{kind: "budget", err: err}
	case err.Internal:
		return outcome{kind: "fault", fault: faultKind(err.Msg), err: err}
	case err.Partial:
		return outcome{kind: "condition", err: err}
	case !err.IsA("condition"):
		return outcome{kind: "undocumented", err: err}
	}
	return outcome{kind: "condition", err: err}
}

func classesOf(args []string) string {
	cs := make([]string, len(args))
	for i, a := range args {
		switch {
		case strings.HasPrefix(a, ":"):
			cs[i] = a
		case poolIndex[a] != nil:
			cs[i] = poolIndex[a].Class
		default:
			cs[i] = "?"
		}
	}
	return "(" + strings.Join(cs, ",") + ")"
}

// fnSig: calls with up to two arguments are enumerated exhaustively (the
// thorough tier walks all of them, the quick tier a sample), so their
// signature can afford the argument class tuple; longer, seeded tuples are
// identified by function and fault only.
func fnSig(c *Case, what string) string {
	mode := ""
	if c.Raw {
		mode = " raw"
	}
	if len(c.Args) <= 2 {
		return fmt.Sprintf("%s fn=%s%s args=%s", what, c.Fn, mode, classesOf(c.Args))
	}
	return fmt.Sprintf("%s fn=%s%s args=3+", what, c.Fn, mode)
}

func renderCall(c *Case) string {
	var b strings.Builder
	b.WriteString("(" + c.Fn)
	for _, a := range c.Args {
		b.WriteByte(' ')
		if po := poolIndex[a]; po != nil {
			src := po.Src
			if c.Raw {
				src = strings.TrimPrefix(src, "'") + "{raw where unevaluated}"
			}
			b.WriteString(src)
		} else {
			b.WriteString(a)
		}
	}
	b.WriteString(")")
	return b.String()
}

func execFn(x *fw.Ctx, c *Case) {
	pkgName, name, _ := strings.Cut(c.Fn, ":")
	x.Cover("pkg:" + pkgName)
	x.Cover(fmt.Sprintf("arity:%d", min(len(c.Args), 6)))
	if c.Raw {
		x.Cover("mode:raw")
	}
	scope := newScope()
	fi := slip.FindFunc(c.Fn)
	if fi == nil {
		x.Fail("harness-nofunc", "function %s not found", c.Fn)
		return
	}
	var se skipEvaler
	if c.Raw {
		_ = sl.Catch(func() { se, _ = fi.Create(slip.List{}).(skipEvaler) })
	}
	form := make(slip.List, 0, len(c.Args)+1)
	form = append(form, slip.Symbol(c.Fn))
	for i, a := range c.Args {
		if strings.HasPrefix(a, ":") {
			form = append(form, slip.Symbol(a))
			continue
		}
		po := poolIndex[a]
		if po == nil {
			x.Fail("harness-pool", "unknown pool object %s", a)
			return
		}
		if po.Form {
			code := slip.ReadString(po.Src, scope)
			form = append(form, code[0])
			continue
		}
		obj, err := sl.Eval(scope, po.Src)
		if err != nil {
			// a previous case damaged a helper: restore and retry once
			_ = sl.Catch(setupWorld)
			if obj, err = sl.Eval(scope, po.Src); err != nil {
				x.Fail("harness-pool", "pool object %s = %s cannot be built: %s", a, po.Src, err)
				return
			}
		}
		if se != nil && se.SkipArgEval(i) {
			form = append(form, obj)
		} else {
			form = append(form, slip.List{slip.Symbol("quote"), obj})
		}
	}
	steps = 0
	ctx := fmt.Sprintf("fn=%s args=%s", c.Fn, classesOf(c.Args))
	if c.Raw {
		ctx = fmt.Sprintf("fn=%s raw args=%s", c.Fn, classesOf(c.Args))
	}
	if 3 <= len(c.Args) {
		ctx = strings.Replace(fnSig(c, ""), " ", "", 1)
	}
	markContext(ctx)
	a0 := allocBytes()
	var res slip.Object
	err := sl.Catch(func() { res = scope.Eval(form, 0) })
	used := allocBytes() - a0
	x.CoverN("eval-steps", steps)
	oc := classify(err)
	obs := map[string]any{"call": renderCall(c), "outcome": oc.kind}
	x.Observe(obs)
	switch oc.kind {
	case "value":
		x.Cover("outcome:value")
		obs["value-kind"] = sl.Kind(res)
	case "condition":
		x.Cover("outcome:condition")
		x.Cover("condition:" + oc.err.Class)
		obs["condition"] = oc.err.Class
	case "fault":
		x.Cover("outcome:internal-fault")
		x.Fail(fnSig(c, "fault="+oc.fault), "%s => internal fault reported as %s: %s", renderCall(c), oc.err.Class, oc.err.Msg)
	case "budget":
		x.Cover("outcome:over-step-budget")
		x.Fail(fnSig(c, "over-budget"), "%s => more than %d evaluation steps", renderCall(c), stepBudget)
	case "undocumented":
		x.Cover("outcome:undocumented-class")
		x.Fail(fnSig(c, "not-a-condition"), "%s => signalled something that is not a condition: chain %v: %s", renderCall(c), oc.err.Chain, oc.err.Msg)
	}
	if allocBudget < used {
		x.Cover("outcome:over-alloc-budget")
		x.Fail(fnSig(c, "alloc"), "%s => allocated %d MiB in one call", renderCall(c), used>>20)
	}
	_ = name
	afterCase(x, c)
	canary(x, "fn="+c.Fn)
}

func exec(x *fw.Ctx, c Case) {
	switch c.K {
	case "skip":
		x.Trivial()
		x.Cover("avoided:" + c.Why)
	case "fn":
		execFn(x, &c)
	case "fmt":
		execFmt(x, &c)
	case "rd":
		execRd(x, &c)
	default:
		x.Fail("harness-case", "unknown case kind %q", c.K)
	}
}

// hangSecs: the no-progress watchdog. C09_HANGSECS is a development aid
// (shorter watchdog while hunting for hanging constructs); registered
// commands never set it.
func hangSecs() int {
	if n, err := strconv.Atoi(os.Getenv("C09_HANGSECS")); err == nil && 0 < n {
		return n
	}
	return 20
}

func init() {
	fw.Register(fw.Spec[Case]{
		ID: "C09",
		Rule: "(1) every exported function of every package (run-time enumeration; documented denylist of functions whose purpose is an effect outside " +
			"the process or blocking) in quoted-argument mode and, for special forms/macros, raw-form mode x every 0-, 1- and 2-tuple of a pool of " +
			"58 representative objects (thorough: exhaustive; quick: all 0/1-tuples + seeded 2-tuples), exhaustive 3-tuples of a 14-object pool for " +
			"functions with >=3 required arguments, seeded 3..5-tuples and documented-keyword calls; (2) format control strings: every directive x " +
			"modifier x parameter shape x pool argument, then seeded compositions; (3) reader: every byte string of length <=3 over a 40-byte " +
			"alphabet, all #-dispatch pairs, seeded mutations of a corpus, through 3 delivery paths. One call/read per case, fresh argument objects " +
			"per case. distinct = distinct case; non-trivial = not an avoided (skip-table) construct",
		N:                func(tier string) int { return getLayout(tier).total },
		Gen:              gen,
		Exec:             exec,
		Init:             workerInit,
		Batch:            2000,
		HangSecs:         hangSecs(),
		CrashIsViolation: true,
		Assumptions: []string{
			"an internal fault is recognised hook-free: a recovered value that is not a slip condition, or a condition whose message carries a Go runtime fault text (sl.LooksInternal)",
			"standard streams are rebound to in-memory streams; stdin readers therefore read a fixed string, not the process stdin",
			"worker address space capped at 6 GiB and Go stack at 256 MiB so that unbounded allocation/recursion dies quickly (fatal error) instead of exhausting the machine",
			"hang = no case completed for HangSecs (20 s) wall time; the calls are microsecond-scale, so machine load cannot produce one",
			"constructs that hang or loop by definition are in the skip table (internal/c09/skiptable.go) and are not generated",
		},
	})
}
