package c09

import (
	"bytes"
	"fmt"
	"strings"

	"github.com/ohler55/slip"

	"verif/internal/sl"
)

// Ambient state. A call does not only meet its arguments: it meets whatever
// the program around it has done to the dynamic environment. The fn1-ambient,
// send-ambient, rd-ambient and fmt-ambient blocks evaluate the same calls as
// the plain blocks while one piece of ambient state is not the default one:
//
//	base16 base2 base36   *print-base* and *read-base* (base2 also *print-radix* t)
//	readably              *print-readably* t
//	locked                the current package (common-lisp-user) is locked
//	stdclosed             *standard-output*, *error-output*, *trace-output* and
//	                      *standard-input* are closed streams
//	float-long float-single  *read-default-float-format*
//	ie                    the call is the body of (ignore-errors ...)
//	recover               the call is the body of (gi:recover ...)
//	uwp                   the call is the protected form of (unwind-protect ...)
//	thread                the call is the body of a (gi:run ...) thread
//
// The oracle is the property's, unchanged: value or condition, no host fault,
// no death, no hang. A handler hides the condition from sl.Catch, so for ie /
// recover / thread the condition is taken from where the construct puts it
// (second value, recovered object, the thread's warning on *error-output*).
// The signature is differential like the in= one: the call is evaluated once
// more with the default state; the same failure there belongs to the function
// (signature without amb=), a different or no failure there belongs to the
// ambient state (signature ... amb=<name>).
var ambients = []string{"base16", "base2", "base36", "readably", "locked", "stdclosed", "float-long", "float-single", "ie", "recover", "uwp", "thread"}

// rdAmbients: the ambient states the reader can meet (the number syntax
// variables and the current package).
var rdAmbients = []string{"base16", "base2", "base36", "float-long", "float-single", "in-bare", "locked"}

// ambArgs: the arguments every function meets under every ambient state in the
// deterministic part of the quick tier (integers with digits above 9 and 15 in
// the larger bases, a float, text, a symbol, a list, an output stream).
var ambArgs = []string{"big62", "neg1", "double", "str", "sym", "list3", "out-stream", "hash"}

var (
	// ambDefaults: the (setq ...) form restoring the variables an ambient state
	// changes; read once while the state is the default one (its text would be
	// read in base 2 after base2).
	ambDefaults slip.Code
	ambSetCode  = map[string]slip.Code{}
	threadOut   *bytes.Buffer // *error-output* of a thread case
)

const ambVars = "*print-base* *read-base* *print-radix* *print-readably* *read-default-float-format*"

// ambInit records the default values of the variables the ambient states set.
func ambInit() {
	var b strings.Builder
	b.WriteString("(setq")
	scope := slip.NewScope()
	for _, v := range strings.Fields(ambVars) {
		val, err := sl.Eval(scope, v)
		if err != nil {
			panic(fmt.Sprintf("c09: ambient variable %s has no value: %s", v, err))
		}
		b.WriteString(" " + v + " '" + slip.ObjectString(val))
	}
	b.WriteString(")")
	ambDefaults = slip.ReadString(b.String(), scope)
	for amb, src := range ambSet {
		ambSetCode[amb] = slip.ReadString(src, scope)
	}
}

var ambSet = map[string]string{
	"base16":       "(setq *print-base* 16 *read-base* 16)",
	"base2":        "(setq *print-base* 2 *read-base* 2 *print-radix* t)",
	"base36":       "(setq *print-base* 36 *read-base* 36)",
	"readably":     "(setq *print-readably* t)",
	"float-long":   "(setq *read-default-float-format* 'long-float)",
	"float-single": "(setq *read-default-float-format* 'single-float)",
	"stdclosed": "(let ((o (make-string-output-stream)) (i (make-string-input-stream \"x\"))) (close o) (close i) " +
		"(setq *standard-output* o *error-output* o *trace-output* o *standard-input* i))",
}

// ambEnter establishes the ambient state and returns the form to evaluate
// (the call itself, or the call inside its wrapper). herr is a harness
// problem: the state could not be established.
func ambEnter(amb string, form slip.Object) (wrapped slip.Object, herr string) {
	wrapped = form
	if code, has := ambSetCode[amb]; has {
		if err := sl.Catch(func() { code.Eval(slip.NewScope(), nil) }); err != nil {
			return form, fmt.Sprintf("ambient state %s cannot be established: %s: %s", amb, ambSet[amb], err)
		}
		return
	}
	switch amb {
	case "locked":
		slip.UserPkg.Locked = true
	case "in-bare":
		herr = enterPkg("bare")
	case "ie":
		wrapped = slip.List{slip.Symbol("common-lisp:ignore-errors"), form}
	case "recover":
		wrapped = slip.List{slip.Symbol("gi:recover"), slip.Symbol("c09-rec"),
			slip.List{slip.Symbol("common-lisp:list"), slip.List{slip.Symbol("quote"), slip.Symbol("c09-recovered")}, slip.Symbol("c09-rec")}, form}
	case "uwp":
		wrapped = slip.List{slip.Symbol("common-lisp:unwind-protect"), form, slip.List{slip.Symbol("common-lisp:list"), slip.Fixnum(1)}}
	case "thread":
		threadOut = &bytes.Buffer{}
		slip.ErrorOutput = &slip.OutputStream{Writer: threadOut}
		slip.StandardOutput = slip.ErrorOutput
		wrapped = slip.List{slip.Symbol("gi:run"), form}
	default:
		herr = "unknown ambient state " + amb
	}
	return
}

// ambLeave restores the default state (every variable, whatever the ambient
// state was: the call itself may have set one of them).
func ambLeave() {
	slip.CurrentPackage = &slip.UserPkg
	slip.UserPkg.Locked = false
	resetStreams()
	if err := sl.Catch(func() { ambDefaults.Eval(slip.NewScope(), nil) }); err != nil {
		panic("c09: the default state cannot be restored: " + err.String())
	}
}

const threadMark = "run thread terminated: "

// ambOutcome digs the condition out of where a handler construct put it.
// res/err are what sl.Catch saw around the wrapped form.
func ambOutcome(amb string, res slip.Object, err *sl.Err) *sl.Err {
	if err != nil {
		return err
	}
	switch amb {
	case "ie":
		// documented: two values, nil and the condition
		if vs, ok := res.(slip.Values); ok && len(vs) == 2 && vs[0] == nil && vs[1] != nil {
			switch tc := vs[1].(type) {
			case *slip.Panic:
				return sl.Classify(tc)
			case slip.Instance:
				return sl.Classify(tc)
			}
		}
	case "recover":
		// (c09-recovered <what was raised, simplified>)
		if l, ok := res.(slip.List); ok && len(l) == 2 && l[0] == slip.Symbol("c09-recovered") {
			switch tr := l[1].(type) {
			case slip.Instance:
				return sl.Classify(tr)
			case slip.String:
				// a raised object that is not a condition arrives as its text
				if sl.LooksInternal(string(tr)) {
					return &sl.Err{Class: "error", Chain: []string{"error", "condition"}, Msg: string(tr), Internal: true}
				}
			}
			return &sl.Err{Class: "condition", Chain: []string{"condition"}, Msg: slip.ObjectString(l[1])}
		}
	case "thread":
		waitGoroutines()
		if threadOut != nil {
			out := threadOut.String()
			if i := strings.Index(out, threadMark); 0 <= i {
				msg := strings.TrimSpace(out[i+len(threadMark):])
				e := &sl.Err{Class: "condition", Chain: []string{"condition"}, Msg: msg}
				if sl.LooksInternal(msg) {
					e.Class, e.Chain, e.Internal = "error", []string{"error", "condition"}, true
				}
				return e
			}
		}
	}
	return nil
}

func ambText(amb string) string {
	if amb == "" {
		return ""
	}
	switch amb {
	case "locked":
		return " [evaluated after (lock-package *package*)]"
	case "in-bare":
		return " [evaluated after (in-package (make-package 'p))]"
	case "ie":
		return " [evaluated as the body of (ignore-errors ...)]"
	case "recover":
		return " [evaluated as the body of (gi:recover r (list 'c09-recovered r) ...)]"
	case "uwp":
		return " [evaluated as the protected form of (unwind-protect ... (list 1))]"
	case "thread":
		return " [evaluated as the body of a (gi:run ...) thread]"
	}
	return " [evaluated after " + ambSet[amb] + "]"
}
