package c09

import (
	"fmt"
	"math/rand/v2"
	"regexp"
	"sort"
	"strconv"
	"strings"

	"github.com/ohler55/slip"

	"verif/internal/fw"
	"verif/internal/sl"
)

// The directive alphabet of pkg/cl/control.go.
var (
	fmtSimple  = []string{"A", "S", "D", "B", "O", "X", "R", "C", "P", "F", "E", "G", "$", "T", "%", "&", "|", "~", "*", "?", "W", "I", "_", "\n"}
	fmtMods    = []string{"", ":", "@", ":@"}
	fmtParams  = []string{"", "5", "0", "-1", "v", "#", "'x", "5,2", "5,0", ",,,'*", "1,2,3,4,5,6,7,8", "100", "v,v", ",", "3,'0,',"}
	fmtHuge    = []string{big62, "-" + big62, big70, "v"} // v is paired with huge/odd pool arguments
	fmtHugeArg = []string{"big62", "minfix", "big70", "str", "list3", "double"}
	// block and otherwise structured control strings, balanced or not
	fmtTemplates = []string{
		"~(~a~)", "~:(~a~)", "~@(~a~)", "~:@(~a~)", "~[a~;b~]", "~:[a~;b~]", "~@[a~]", "~#[a~;b~]", "~[a~:;b~]", "~v[a~;b~]", "~1[a~;b~]", "~[a~]", "~[a~;b~;c~]", "~2[a~;b~]", "~1[a~:;b~]", "~3[a~;b~;c~:;d~]", "~#[a~]", "~#[a~;b~;c~]",
		"~{~a~}", "~:{~a~}", "~@{~a~}", "~:@{~a~}", "~{~a~^, ~}", "~{~}", "~1{~a~}", "~v{~a~}", "~{~a~:}", "~0{~a~:}", "~{~a ~a~}", "~:{~a~:^~}",
		"~<~a~>", "~10<~a~;~a~>", "~10:<~a~>", "~10@<~a~>", "~<~a~:>", "~<~a~;~a~;~a~>", "~<~a~:;~a~>", "~v<~a~>",
		"~/foo/", "~/c09-fn/", "~:/c09-fn/", "~1,2/c09-fn/", "~?", "~@?", "~? ~a", "~\n   x", "~:\n   x", "~@\n   x",
		"~(", "~)", "~[", "~]", "~{", "~}", "~<", "~>", "~;", "~^", "~", "~:", "~@", "~1", "~1,", "~'", "~v", "~#", "~/", "~/abc", "~:;", "~(~[~)~]",
		"~{~(~}~)", "~[~{~]~}", "~<~{~>~}", "~{~[~a~;~a~]~}", "~@{~a~^~}", "~:@(~{~a~}~)", "~^~a", "~0^~a", "~1,1^~a", "~1,2,3^~a", "~v^~a", "~#^~a",
		"~*~a", "~:*~a", "~@*~a", "~5*~a", "~5:*~a", "~5@*~a", "~v*~a", "~-1*~a", "~a~:*~a~:*~:*~a", "~p", "~:p", "~@p", "~:@p", "~a~:p",
		"~q", "~z", "~!", "~\x00", "~\xff", "~:::a", "~@@a", "~:@:a", "~1,2,3,4,5,6,7,8,9,10a", "~''a", "~',a", "~'", "~v,v,v,va", "~#,#a",
		"~10t", "~10,5t", "~10@t", "~10:t", "~vt", "~,t", "~e", "~10,2,2,1,'*,'+,'ee", "~10,2,1,'*,'+f", "~$", "~2,1,10$", "~:@$", "~10,2g",
		"~r", "~2r", "~36r", "~37r", "~1r", "~0r", "~-1r", "~vr", "~:r", "~@r", "~:@r", "~3,10,'*,'-,2:r", "~c", "~:c", "~@c", "~:@c",
	}
	fmtTemplArgs = [][]string{{}, {"nil"}, {"zero"}, {"three"}, {"neg1"}, {"big62"}, {"big70"}, {"double"}, {"str"}, {"sym"}, {"char"}, {"list3"}, {"dotted"},
		{"nested"}, {"vector"}, {"hash"}, {"lambda"}, {"values0"}, {"ratio"}, {"minfix"}, {"long"}, {"complex"},
		{"zero", "str"}, {"three", "list3"}, {"list3", "zero"}, {"str", "list3"}, {"nil", "nil"}, {"tilde-str", "list3"}, {"str", "dotted"}, {"one", "one", "one"}}
)

func fmtDetN() int {
	return len(fmtSimple)*len(fmtMods)*len(fmtParams)*len(pool) +
		len(fmtSimple)*len(fmtMods)*len(fmtHuge)*len(fmtHugeArg) +
		len(fmtTemplates)*len(fmtTemplArgs)
}

func mkFmt(ctl string, args ...string) Case {
	if why := skippedFmt(ctl, args); why != "" {
		return Case{K: "skip", Fn: "fmt", Ctl: ctl, Args: args, Why: why}
	}
	return Case{K: "fmt", Ctl: ctl, Args: args}
}

func nV(param string) int { return strings.Count(param, "v") }

func genFmt(r *rand.Rand, k int) Case {
	P := len(pool)
	n1 := len(fmtSimple) * len(fmtMods) * len(fmtParams) * P
	if k < n1 {
		d := fmtSimple[k/(len(fmtMods)*len(fmtParams)*P)]
		m := fmtMods[(k/(len(fmtParams)*P))%len(fmtMods)]
		p := fmtParams[(k/P)%len(fmtParams)]
		a := pool[k%P].Name
		args := []string{a}
		for v := nV(p); 0 < v; v-- { // the pool object feeds the v parameter; the directive gets 1
			args = append(args, "one")
		}
		return mkFmt("~"+p+m+d, args...)
	}
	k -= n1
	n2 := len(fmtSimple) * len(fmtMods) * len(fmtHuge) * len(fmtHugeArg)
	if k < n2 {
		d := fmtSimple[k/(len(fmtMods)*len(fmtHuge)*len(fmtHugeArg))]
		m := fmtMods[(k/(len(fmtHuge)*len(fmtHugeArg)))%len(fmtMods)]
		p := fmtHuge[(k/len(fmtHugeArg))%len(fmtHuge)]
		a := fmtHugeArg[k%len(fmtHugeArg)]
		if p == "v" {
			return mkFmt("~v"+m+d, a, "one")
		}
		return mkFmt("~"+p+m+d, a)
	}
	k -= n2
	n3 := len(fmtTemplates) * len(fmtTemplArgs)
	if k < n3 {
		return mkFmt(fmtTemplates[k/len(fmtTemplArgs)], fmtTemplArgs[k%len(fmtTemplArgs)]...)
	}
	// seeded compositions
	var b strings.Builder
	piece := func() {
		switch r.IntN(10) {
		case 0:
			b.WriteString(fw.Pick(r, fmtTemplates))
		case 1:
			b.WriteString(fw.Pick(r, []string{"x", " ", "ab", ", "}))
		default:
			b.WriteString("~" + fw.Pick(r, fmtParams) + fw.Pick(r, fmtMods) + fw.Pick(r, fmtSimple))
		}
	}
	n := 1 + r.IntN(4)
	wrap := r.IntN(6)
	open, clos := "", ""
	switch wrap {
	case 0:
		open, clos = "~"+fw.Pick(r, fmtMods)+"{", "~}"
	case 1:
		open, clos = "~"+fw.Pick(r, fmtMods)+"(", "~)"
	case 2:
		open, clos = "~"+fw.Pick(r, fmtMods)+"[", "~;x~]"
	case 3:
		open, clos = "~"+fw.Pick(r, []string{"", "10", "10:", "10@"})+"<", "~>"
	}
	b.WriteString(open)
	for ; 0 < n; n-- {
		piece()
	}
	if r.IntN(8) != 0 { // sometimes left unbalanced
		b.WriteString(clos)
	}
	var args []string
	for na := r.IntN(4); 0 < na; na-- {
		args = append(args, pool[r.IntN(P)].Name)
	}
	return mkFmt(b.String(), args...)
}

type fmtDir struct {
	params string
	mods   string // "", ":", "@", ":@"
	ch     byte   // 0 at end of string
}

// parseDirs splits a control string into its directives the way
// pkg/cl/control.go reads them: ~ params modifiers char.
func parseDirs(ctl string) (ds []fmtDir) {
	for i := 0; i < len(ctl); i++ {
		if ctl[i] != '~' {
			continue
		}
		j := i + 1
		var colon, at bool
		p0 := j
		p1 := j
		for j < len(ctl) {
			ch := ctl[j]
			if ch == '\'' && j+1 < len(ctl) {
				j += 2
				p1 = j
				continue
			}
			if ch == ':' {
				colon = true
				j++
				continue
			}
			if ch == '@' {
				at = true
				j++
				continue
			}
			if ch == ',' || ch == '#' || ch == 'v' || ch == 'V' || ch == '-' || ch == '+' || ('0' <= ch && ch <= '9') {
				j++
				p1 = j
				continue
			}
			break
		}
		d := fmtDir{params: strings.NewReplacer(":", "", "@", "").Replace(ctl[p0:min(p1, len(ctl))])}
		if colon {
			d.mods = ":"
		}
		if at {
			d.mods += "@"
		}
		if j < len(ctl) {
			d.ch = ctl[j]
			if 'a' <= d.ch && d.ch <= 'z' {
				d.ch -= 'a' - 'A'
			}
		}
		ds = append(ds, d)
		i = j
	}
	return
}

func (d *fmtDir) name() string {
	switch {
	case d.ch == 0:
		return d.mods + "<end>"
	case d.ch == '\n':
		return d.mods + "<nl>"
	case d.ch < ' ' || 0x7e < d.ch:
		return fmt.Sprintf("%s<%02x>", d.mods, d.ch)
	}
	if d.ch == '*' {
		return d.mods + "<star>"
	}
	return d.mods + string(d.ch)
}

// fmtDirs lists the directives (modifiers kept, parameters dropped) of a
// control string, sorted and de-duplicated.
func fmtDirs(ctl string) string {
	set := map[string]bool{}
	for _, d := range parseDirs(ctl) {
		set[d.name()] = true
	}
	var ds []string
	for d := range set {
		ds = append(ds, d)
	}
	sort.Strings(ds)
	return strings.Join(ds, " ")
}

var longNumber = regexp.MustCompile(`[0-9]{7,}`)

// fmtRisk recognises control strings that are not generated because the
// language itself makes them (nearly) endless.
func fmtRisk(ctl string, args []string) string {
	ds := parseDirs(ctl)
	hugeArg := false
	for _, a := range args {
		if a == "big62" || a == "big70" || a == "minfix" || a == "big40" {
			hugeArg = true
		}
	}
	// Sizes: since 62dc4c3 a directive parameter beyond 2^24 is refused and a
	// column increment of 0 is handled, so both are generated. What stays out
	// is the product of large parameters (a large count inside an iteration or
	// two large counts in one control string): bounded, but by up to 2^48.
	huge := 0
	inIter := 0
	for _, d := range ds {
		switch d.ch {
		case '{':
			inIter++
		case '}':
			if 0 < inIter {
				inIter--
			}
		}
		if strings.IndexByte(fmtHugeDirs+"{", d.ch) < 0 || d.ch == 0 {
			continue
		}
		if longNumber.MatchString(d.params) || (hugeArg && strings.ContainsAny(d.params, "vV")) {
			huge++
			if 0 < inIter || 1 < huge {
				return "by-definition:fmt-product-of-huge-parameters"
			}
		}
	}
	// iterations: a body that consumes no argument, or any ~* jump, can
	// keep the argument position from advancing
	depth := 0
	consumed := []bool{}
	jump := false
	iter := false
	for _, d := range ds {
		switch d.ch {
		case '{':
			iter = true
			depth++
			consumed = append(consumed, false)
		case '}':
			if 0 < depth {
				if !consumed[depth-1] {
					return "by-definition:fmt-iteration-consumes-nothing"
				}
				depth--
				consumed = consumed[:depth]
				if 0 < depth {
					consumed[depth-1] = true
				}
			}
		case '*':
			jump = true
		case '[':
			// ~n[ ~#[ and ~@[ select without consuming
			if 0 < depth && d.params == "" && !strings.Contains(d.mods, "@") {
				consumed[depth-1] = true
			}
		default:
			if 0 < depth && strings.IndexByte("ASDBOXRCPFEGW$?", d.ch) >= 0 {
				consumed[depth-1] = true
			}
		}
	}
	if iter && jump {
		return "by-definition:fmt-iteration-consumes-nothing"
	}
	// slip finds the end of the body textually ("~}"); "~1~}" reads here as
	// the directive ~1~ followed by a literal brace, there as a body "~1"
	for k := 0; k < depth; k++ {
		if !consumed[k] && strings.Contains(ctl, "~}") {
			return "by-definition:fmt-iteration-consumes-nothing"
		}
	}
	return ""
}

// fmtHugeDirs: directives that try to produce as many characters as a
// parameter says (count, mincol, column, width).
const fmtHugeDirs = "$%&|~ABDOSTXEFG<*"

// fmtDests: where the output of a format case goes, or the function through
// which the control string reaches the directive interpreter. "" = (format nil
// ctl args...).
var fmtDests = []string{"t", "stream", "closed", "fpstr", "error", "warn", "cerror", "report", "y-or-n-p"}

// fmtDestParams / fmtDestArgs / fmtDestTemplArgs: the shapes of the
// deterministic destination block.
var (
	fmtDestParams    = []string{"", "5", "v", "#"}
	fmtDestArgs      = []string{"three", "str", "list3"}
	fmtDestTemplArgs = [][]string{{}, {"three"}, {"list3"}, {"str", "list3"}}
	fmtAmbs          = []string{"base16", "base2", "base36", "readably", "stdclosed", "ie", "thread"}
	fmtAmbParams     = []string{"", "5"}
	fmtAmbArgs       = []string{"big62", "double", "list3"}
)

func fmtDestN() int {
	return len(fmtSimple)*len(fmtMods)*len(fmtDestParams)*len(fmtDestArgs)*len(fmtDests) + len(fmtTemplates)*len(fmtDestTemplArgs)*len(fmtDests) +
		len(fmtSimple)*len(fmtMods)*len(fmtAmbParams)*len(fmtAmbArgs)*len(fmtAmbs)
}

// genFmtDest: the deterministic destination / ambient block of format.
func genFmtDest(k int) Case {
	nD := len(fmtDests)
	n1 := len(fmtSimple) * len(fmtMods) * len(fmtDestParams) * len(fmtDestArgs) * nD
	if k < n1 {
		dest := fmtDests[k%nD]
		k /= nD
		a := fmtDestArgs[k%len(fmtDestArgs)]
		k /= len(fmtDestArgs)
		p := fmtDestParams[k%len(fmtDestParams)]
		k /= len(fmtDestParams)
		m := fmtMods[k%len(fmtMods)]
		d := fmtSimple[k/len(fmtMods)]
		args := []string{a}
		for v := nV(p); 0 < v; v-- {
			args = append(args, "one")
		}
		c := mkFmt("~"+p+m+d, args...)
		if c.K == "fmt" {
			c.Dest = dest
		}
		return c
	}
	k -= n1
	n2 := len(fmtTemplates) * len(fmtDestTemplArgs) * nD
	if k < n2 {
		c := mkFmt(fmtTemplates[k/(len(fmtDestTemplArgs)*nD)], fmtDestTemplArgs[(k/nD)%len(fmtDestTemplArgs)]...)
		if c.K == "fmt" {
			c.Dest = fmtDests[k%nD]
		}
		return c
	}
	k -= n2
	amb := fmtAmbs[k%len(fmtAmbs)]
	k /= len(fmtAmbs)
	a := fmtAmbArgs[k%len(fmtAmbArgs)]
	k /= len(fmtAmbArgs)
	p := fmtAmbParams[k%len(fmtAmbParams)]
	k /= len(fmtAmbParams)
	m := fmtMods[k%len(fmtMods)]
	d := fmtSimple[k/len(fmtMods)]
	c := mkFmt("~"+p+m+d, a)
	if c.K == "fmt" {
		c.Amb = amb
		if amb == "stdclosed" {
			c.Dest = "t"
		}
	}
	return c
}

// fmtForm builds the call of a format case for its destination.
func fmtForm(scope *slip.Scope, dest, ctl string, args []string) (slip.List, string) {
	var vals slip.List
	for _, a := range args {
		po := poolIndex[a]
		if po == nil {
			return nil, "unknown pool object " + a
		}
		obj, herr := buildArg(scope, po)
		if herr != "" {
			return nil, herr
		}
		if po.Form {
			vals = append(vals, obj)
		} else {
			vals = append(vals, slip.List{slip.Symbol("quote"), obj})
		}
	}
	build := func(name string) (slip.Object, string) {
		obj, herr := buildArg(scope, poolIndex[name])
		return slip.List{slip.Symbol("quote"), obj}, herr
	}
	var (
		first slip.Object
		herr  string
	)
	switch dest {
	case "", "t":
		if dest == "t" {
			first = slip.True
		}
		return append(slip.List{slip.Symbol("common-lisp:format"), first, slip.String(ctl)}, vals...), ""
	case "stream", "closed", "fpstr":
		if first, herr = build(map[string]string{"stream": "out-stream", "closed": "closed-out-stream", "fpstr": "fp-str"}[dest]); herr != "" {
			return nil, herr
		}
		return append(slip.List{slip.Symbol("common-lisp:format"), first, slip.String(ctl)}, vals...), ""
	case "error", "warn", "y-or-n-p":
		return append(slip.List{slip.Symbol("common-lisp:" + dest), slip.String(ctl)}, vals...), ""
	case "cerror":
		return append(slip.List{slip.Symbol("common-lisp:cerror"), slip.String("go on"), slip.String(ctl)}, vals...), ""
	case "report":
		// the control string is interpreted when the condition is printed
		return slip.List{slip.Symbol("common-lisp:princ-to-string"), slip.List{slip.Symbol("common-lisp:make-condition"),
			slip.List{slip.Symbol("quote"), slip.Symbol("simple-error")}, slip.Symbol(":format-control"), slip.String(ctl),
			slip.Symbol(":format-arguments"), append(slip.List{slip.Symbol("common-lisp:list")}, vals...)}}, ""
	}
	return nil, "unknown format destination " + dest
}

func fmtCall(scope *slip.Scope, dest, ctl string, args []string) (slip.Object, *sl.Err, string) {
	form, herr := fmtForm(scope, dest, ctl, args)
	if herr != "" {
		return nil, nil, herr
	}
	steps, budgetAt = 0, stepBudget
	var res slip.Object
	err := sl.Catch(func() { res = scope.Eval(form, 0) })
	return res, err, ""
}

func renderFmt(ctl string, args []string) string { return renderFmtDest("", ctl, args) }

func renderFmtDest(dest, ctl string, args []string) string {
	var b strings.Builder
	head, tail := "(format nil", ")"
	switch dest {
	case "t":
		head = "(format t"
	case "stream":
		head = "(format (make-string-output-stream)"
	case "closed":
		head = "(format " + poolIndex["closed-out-stream"].Src
	case "fpstr":
		head = "(format " + poolIndex["fp-str"].Src
	case "error", "warn", "y-or-n-p":
		head = "(" + dest
	case "cerror":
		head = "(cerror \"go on\""
	case "report":
		head, tail = "(princ-to-string (make-condition 'simple-error :format-control", "))"
	}
	fmt.Fprintf(&b, "%s %q", head, ctl)
	if dest == "report" {
		b.WriteString(" :format-arguments (list")
	}
	for _, a := range args {
		b.WriteByte(' ')
		b.WriteString(poolIndex[a].Src)
	}
	if dest == "report" {
		b.WriteString(")")
	}
	b.WriteString(tail)
	return b.String()
}

func execFmt(x *fw.Ctx, c *Case) {
	scope := newScope()
	dirs := fmtDirs(c.Ctl)
	x.Cover("fmt-calls")
	for _, d := range strings.Fields(dirs) {
		x.Cover("fmt-dir:" + d)
	}
	via := ""
	if c.Dest != "" {
		x.Cover("fmt-dest:" + c.Dest)
		via = " via=" + c.Dest
	}
	var (
		res  slip.Object
		err  *sl.Err
		herr string
		form slip.List
	)
	if c.Amb != "" {
		x.Cover("fmt-ambient:" + c.Amb)
		via += " amb=" + c.Amb
	}
	markContext("fmt dirs=" + dirs + via)
	a0 := allocBytes()
	if form, herr = fmtForm(scope, c.Dest, c.Ctl, c.Args); herr == "" {
		var evalForm slip.Object = form
		if c.Amb != "" {
			evalForm, herr = ambEnter(c.Amb, form)
		}
		if herr == "" {
			steps, budgetAt = 0, stepBudget
			err = sl.Catch(func() { res = scope.Eval(evalForm, 0) })
		}
		if c.Amb != "" {
			if herr == "" {
				err = ambOutcome(c.Amb, res, err)
			}
			ambLeave()
		}
	}
	used := allocBytes() - a0
	if herr != "" {
		x.Fail("harness-pool", "%s", herr)
		return
	}
	oc := classify(err)
	if via != "" && (oc.kind == "fault" || oc.kind == "raw-panic" || oc.kind == "undocumented" || oc.kind == "budget") {
		// Differential: (format nil ...) in the default state. The same failure
		// there belongs to the directive (plain signature).
		_, err2, _ := fmtCall(newScope(), "", c.Ctl, c.Args)
		if o2 := classify(err2); o2.kind == oc.kind && o2.fault == oc.fault {
			via = ""
			x.Cover("fmt-dest:same-failure-with-format-nil")
		}
	}
	obs := map[string]any{"call": renderFmtDest(c.Dest, c.Ctl, c.Args) + ambText(c.Amb), "outcome": oc.kind}
	x.Observe(obs)
	x.Cover("fmt-outcome:" + oc.kind)
	if oc.err != nil {
		obs["condition"] = oc.err.Class
	}
	call := renderFmtDest(c.Dest, c.Ctl, c.Args) + ambText(c.Amb)
	switch oc.kind {
	case "fault":
		if via != "" {
			// specific to the destination / ambient state: no shrinking (the
			// shrinker works on (format nil ...)); the directives name the construct
			x.Fail(sigName("fault="+oc.fault+" fmt"+via+" dirs="+dirs), "%s => internal fault reported as %s: %s", call, oc.err.Class, oc.err.Msg)
		} else {
			x.Fail(fmtFaultSig(c, oc), "%s => internal fault reported as %s: %s", call, oc.err.Class, oc.err.Msg)
		}
	case "raw-panic":
		x.Fail(sigName("raw-go-panic fmt"+via+" dirs="+dirs), "%s => a bare Go panic value (%s) instead of a condition: %s", call, oc.err.GoType, oc.err.Msg)
	case "budget":
		x.Fail(sigName("over-budget fmt"+via+" dirs="+dirs), "%s => more than %d evaluation steps", call, stepBudget)
	case "undocumented":
		x.Fail(sigName("not-a-condition fmt"+via+" dirs="+dirs), "%s => signalled a non-condition: %v %s", call, oc.err.Chain, oc.err.Msg)
	}
	if allocBudget < used {
		x.Fail("alloc fmt dirs="+dirs, "%s => allocated %d MiB", renderFmt(c.Ctl, c.Args), used>>20)
	}
	afterCase(x, c)
	canary(x, "fmt dirs="+dirs)
}

// skippedFmt: control strings that are not generated (see skiptable.go).
func skippedFmt(ctl string, args []string) string {
	if why := fmtRisk(ctl, args); why != "" {
		return why
	}
	for i := range fmtSkips {
		e := &fmtSkips[i]
		if e.Ctl != "" && e.Ctl != ctl {
			continue
		}
		if e.Contains != "" && !strings.Contains(ctl, e.Contains) {
			continue
		}
		ok := true
		for k, p := range e.Args {
			if len(args) <= k || !argMatch(p, args[k]) {
				ok = false
			}
		}
		if ok {
			return e.Finding
		}
	}
	return ""
}

type fmtSkip struct {
	Ctl      string   // exact control string, or
	Contains string   // substring of the control string
	Args     []string // argument patterns (prefix)
	Finding  string
}

func baseKind(k string) string {
	if i := strings.IndexByte(k, '['); 0 < i {
		return k[:i]
	}
	return k
}

// fmtFaultSig names the failing construct of a format fault.
//   - an index fault: the directives fetch c.args[c.argPos] without looking
//     whether the position is inside the argument list (one family, every
//     consuming directive has it).
//   - anything else: the control string is shrunk (whole directives, then
//     arguments, then single bytes, while the same kind of fault remains)
//     and the signature lists the directives that are left.
func fmtFaultSig(c *Case, oc outcome) string {
	try := func(ct string, ar []string) (string, bool) {
		if skippedFmt(ct, ar) != "" || !shrinkSafe(ct) {
			return "", false
		}
		_, e, h := fmtCall(newScope(), "", ct, ar)
		o := classify(e)
		if h != "" || o.kind != "fault" {
			return "", false
		}
		return o.fault, true
	}
	if baseKind(oc.fault) == "index" && fmtArgPosFault(c, oc.err.Msg) {
		// One family: every directive reads c.args[c.argPos] (and the v
		// parameter) without looking whether the position is inside the
		// argument list; the position leaves it by exhaustion, by ~n* / ~n@*
		// past the end or by ~n:* before the start, at top level or in the
		// sublist an iteration or ~? hands on.
		return "fault=index fmt argument-position-outside-list"
	}
	ctl, args := c.Ctl, c.Args
	same := func(ct string, ar []string) bool {
		k, ok := try(ct, ar)
		return ok && baseKind(k) == baseKind(oc.fault)
	}
	for changed := true; changed; {
		changed = false
		// whole directives
		for again := true; again; {
			again = false
			pos := dirSpans(ctl)
			for k := len(pos) - 1; 0 <= k; k-- {
				if cand := ctl[:pos[k][0]] + ctl[pos[k][1]:]; same(cand, args) {
					ctl, again, changed = cand, true, true
					break
				}
			}
		}
		for 0 < len(args) && same(ctl, args[:len(args)-1]) {
			args, changed = args[:len(args)-1], true
		}
		for 0 < len(args) && same(ctl, args[1:]) {
			args, changed = args[1:], true
		}
		// a directive together with the argument it consumes
	pair:
		for again := true; again; {
			again = false
			pos := dirSpans(ctl)
			for k := len(pos) - 1; 0 <= k; k-- {
				cand := ctl[:pos[k][0]] + ctl[pos[k][1]:]
				for a := range args {
					ar := append(append([]string{}, args[:a]...), args[a+1:]...)
					if same(cand, ar) {
						ctl, args, again, changed = cand, ar, true, true
						continue pair
					}
				}
			}
		}
		for i := 0; i < len(ctl); i++ {
			if cand := ctl[:i] + ctl[i+1:]; same(cand, args) {
				ctl, changed = cand, true
				i--
			}
		}
	}
	k, _ := try(ctl, args)
	if k == "" {
		k = oc.fault
	}
	// The culprit is the last argument-taking directive of the shrunk string:
	// nothing after the faulting directive is ever executed, so everything
	// removable behind it is gone.
	ds := parseDirs(ctl)
	culprit := ""
	for k := len(ds) - 1; 0 <= k && culprit == ""; k-- {
		if ds[k].ch != 0 && strings.IndexByte("ASDBOXRCPFEGWT$?/", ds[k].ch) >= 0 {
			culprit = ds[k].name()
		}
	}
	if culprit == "" {
		culprit = fmtDirs(ctl)
	}
	return sigName(fmt.Sprintf("fault=%s fmt dir=%s", k, culprit))
}

// shrinkSafe is the stricter rule for control strings the shrinker makes up:
// every iteration body must hold an argument-taking directive that is not
// inside a conditional or justification (whose clauses may not run), so that
// each round of the iteration is certain to consume an argument.
func shrinkSafe(ctl string) bool {
	type frame struct {
		consumed bool
		inner    int // depth of [ ] and < > inside this iteration body
	}
	var st []frame
	for _, d := range parseDirs(ctl) {
		switch d.ch {
		case '{':
			st = append(st, frame{})
		case '}':
			if 0 < len(st) {
				if !st[len(st)-1].consumed {
					return false
				}
				st = st[:len(st)-1]
			}
		case '[', '<':
			if 0 < len(st) {
				st[len(st)-1].inner++
			}
		case ']', '>':
			if 0 < len(st) && 0 < st[len(st)-1].inner {
				st[len(st)-1].inner--
			}
		default:
			if 0 < len(st) && st[len(st)-1].inner == 0 && strings.IndexByte("ASDBOXRCPFEGW$", d.ch) >= 0 {
				st[len(st)-1].consumed = true
			}
		}
	}
	for _, f := range st { // unclosed iteration
		if !f.consumed {
			return false
		}
	}
	return true
}

var idxLen = regexp.MustCompile(`index out of range \[(-?\d+)\](?: with length (\d+))?`)

// fmtArgPosFault tells whether an index fault is an access to the argument
// list: the length in the message is the number of arguments given, or the
// index is negative after a ~* jump, or the control string works on
// sublists (iteration, ~?) whose length is not known here. An index fault
// with any other length (a table inside a directive) keeps its own signature.
func fmtArgPosFault(c *Case, msg string) bool {
	m := idxLen.FindStringSubmatch(msg)
	if m == nil {
		return false
	}
	star, sub := false, false
	for _, d := range parseDirs(c.Ctl) {
		switch d.ch {
		case '*':
			star = true
		case '{', '?':
			sub = true
		}
	}
	switch {
	case sub:
		return true
	case m[2] == "":
		return star && strings.HasPrefix(m[1], "-")
	}
	return m[2] == strconv.Itoa(len(c.Args))
}

// dirSpans gives the [start,end) byte ranges of the directives of ctl.
func dirSpans(ctl string) (spans [][2]int) {
	for i := 0; i < len(ctl); i++ {
		if ctl[i] != '~' {
			continue
		}
		j := i + 1
		for j < len(ctl) {
			ch := ctl[j]
			if ch == '\'' && j+1 < len(ctl) {
				j += 2
				continue
			}
			if strings.IndexByte(":@,#vV-+0123456789", ch) >= 0 {
				j++
				continue
			}
			break
		}
		if j < len(ctl) {
			j++
		}
		spans = append(spans, [2]int{i, j})
		i = j - 1
	}
	return
}
