package c09

import (
	"fmt"
	"math/rand/v2"
	"sort"
	"strings"

	"github.com/ohler55/slip"

	"verif/internal/fw"
	"verif/internal/sl"
)

// The directive alphabet of pkg/cl/control.go.
var (
	fmtSimple  = []string{"A", "S", "D", "B", "O", "X", "R", "C", "P", "F", "E", "G", "$", "T", "%", "&", "|", "~", "*", "?", "W", "I", "_", "\n"}
	fmtMods    = []string{"", ":", "@", ":@"}
	fmtParams  = []string{"", "5", "0", "-1", "v", "#", "'x", "5,2", ",,,'*", "1,2,3,4,5,6,7,8", "100", "v,v", ",", "3,'0,',"}
	fmtHuge    = []string{big62, "-" + big62, big70, "v"} // v is paired with huge/odd pool arguments
	fmtHugeArg = []string{"big62", "minfix", "big70", "str", "list3", "double"}
	// block and otherwise structured control strings, balanced or not
	fmtTemplates = []string{
		"~(~a~)", "~:(~a~)", "~@(~a~)", "~:@(~a~)", "~[a~;b~]", "~:[a~;b~]", "~@[a~]", "~#[a~;b~]", "~[a~:;b~]", "~v[a~;b~]", "~1[a~;b~]",
		"~{~a~}", "~:{~a~}", "~@{~a~}", "~:@{~a~}", "~{~a~^, ~}", "~{~}", "~1{~a~}", "~v{~a~}", "~{~a~:}", "~0{~a~:}", "~{~a ~a~}", "~:{~a~:^~}",
		"~<~a~>", "~10<~a~;~a~>", "~10:<~a~>", "~10@<~a~>", "~<~a~:>", "~<~a~;~a~;~a~>", "~<~a~:;~a~>", "~v<~a~>",
		"~/foo/", "~/c09-fn/", "~:/c09-fn/", "~1,2/c09-fn/", "~?", "~@?", "~? ~a", "~\n   x", "~:\n   x", "~@\n   x",
		"~(", "~)", "~[", "~]", "~{", "~}", "~<", "~>", "~;", "~^", "~", "~:", "~@", "~1", "~1,", "~'", "~v", "~#", "~/", "~/abc", "~:;", "~(~[~)~]",
		"~{~(~}~)", "~[~{~]~}", "~<~{~>~}", "~{~[~a~;~a~]~}", "~@{~a~^~}", "~:@(~{~a~}~)", "~^~a", "~0^~a", "~1,1^~a", "~1,2,3^~a", "~v^~a", "~#^~a",
		"~*~a", "~:*~a", "~@*~a", "~5*~a", "~5:*~a", "~5@*~a", "~v*~a", "~-1*~a", "~a~:*~a~:*~:*~a", "~p", "~:p", "~@p", "~:@p", "~a~:p",
		"~q", "~z", "~!", "~\x00", "~\xff", "~:::a", "~@@a", "~:@:a", "~1,2,3,4,5,6,7,8,9,10a", "~''a", "~',a", "~'", "~v,v,v,va", "~#,#a",
		"~10t", "~10,5t", "~10@t", "~10:t", "~vt", "~,t", "~e", "~10,2,2,1,'*,'+,'ee", "~10,2,1,'*,'+f", "~$", "~2,1,10$", "~:@$", "~10,2g",
		"~r", "~2r", "~36r", "~37r", "~1r", "~0r", "~-1r", "~vr", "~:r", "~@r", "~:@r", "~3,10,'*,'-,2:r", "~c", "~:c", "~@c", "~:@c",
	}
	fmtTemplArgs = [][]string{{}, {"nil"}, {"zero"}, {"three"}, {"neg1"}, {"big62"}, {"big70"}, {"double"}, {"str"}, {"sym"}, {"char"}, {"list3"}, {"dotted"},
		{"nested"}, {"vector"}, {"hash"}, {"lambda"}, {"values0"}, {"ratio"}, {"minfix"}, {"long"}, {"complex"},
		{"zero", "str"}, {"three", "list3"}, {"list3", "zero"}, {"str", "list3"}, {"nil", "nil"}, {"tilde-str", "list3"}, {"str", "dotted"}, {"one", "one", "one"}}
)

func fmtDetN() int {
	return len(fmtSimple)*len(fmtMods)*len(fmtParams)*len(pool) +
		len(fmtSimple)*len(fmtMods)*len(fmtHuge)*len(fmtHugeArg) +
		len(fmtTemplates)*len(fmtTemplArgs)
}

func mkFmt(ctl string, args ...string) Case {
	if why := skippedFmt(ctl, args); why != "" {
		return Case{K: "skip", Fn: "fmt", Ctl: ctl, Args: args, Why: why}
	}
	return Case{K: "fmt", Ctl: ctl, Args: args}
}

func nV(param string) int { return strings.Count(param, "v") }

func genFmt(r *rand.Rand, k int) Case {
	P := len(pool)
	n1 := len(fmtSimple) * len(fmtMods) * len(fmtParams) * P
	if k < n1 {
		d := fmtSimple[k/(len(fmtMods)*len(fmtParams)*P)]
		m := fmtMods[(k/(len(fmtParams)*P))%len(fmtMods)]
		p := fmtParams[(k/P)%len(fmtParams)]
		a := pool[k%P].Name
		args := []string{a}
		for v := nV(p); 0 < v; v-- { // the pool object feeds the v parameter; the directive gets 1
			args = append(args, "one")
		}
		return mkFmt("~"+p+m+d, args...)
	}
	k -= n1
	n2 := len(fmtSimple) * len(fmtMods) * len(fmtHuge) * len(fmtHugeArg)
	if k < n2 {
		d := fmtSimple[k/(len(fmtMods)*len(fmtHuge)*len(fmtHugeArg))]
		m := fmtMods[(k/(len(fmtHuge)*len(fmtHugeArg)))%len(fmtMods)]
		p := fmtHuge[(k/len(fmtHugeArg))%len(fmtHuge)]
		a := fmtHugeArg[k%len(fmtHugeArg)]
		if p == "v" {
			return mkFmt("~v"+m+d, a, "one")
		}
		return mkFmt("~"+p+m+d, a)
	}
	k -= n2
	n3 := len(fmtTemplates) * len(fmtTemplArgs)
	if k < n3 {
		return mkFmt(fmtTemplates[k/len(fmtTemplArgs)], fmtTemplArgs[k%len(fmtTemplArgs)]...)
	}
	// seeded compositions
	var b strings.Builder
	piece := func() {
		switch r.IntN(10) {
		case 0:
			b.WriteString(fw.Pick(r, fmtTemplates))
		case 1:
			b.WriteString(fw.Pick(r, []string{"x", " ", "ab", ", "}))
		default:
			b.WriteString("~" + fw.Pick(r, fmtParams) + fw.Pick(r, fmtMods) + fw.Pick(r, fmtSimple))
		}
	}
	n := 1 + r.IntN(4)
	wrap := r.IntN(6)
	open, clos := "", ""
	switch wrap {
	case 0:
		open, clos = "~"+fw.Pick(r, fmtMods)+"{", "~}"
	case 1:
		open, clos = "~"+fw.Pick(r, fmtMods)+"(", "~)"
	case 2:
		open, clos = "~"+fw.Pick(r, fmtMods)+"[", "~;x~]"
	case 3:
		open, clos = "~"+fw.Pick(r, []string{"", "10", "10:", "10@"})+"<", "~>"
	}
	b.WriteString(open)
	for ; 0 < n; n-- {
		piece()
	}
	if r.IntN(8) != 0 { // sometimes left unbalanced
		b.WriteString(clos)
	}
	var args []string
	for na := r.IntN(4); 0 < na; na-- {
		args = append(args, pool[r.IntN(P)].Name)
	}
	return mkFmt(b.String(), args...)
}

// fmtDirs lists the directives (modifiers kept, parameters dropped) of a
// control string, sorted and de-duplicated.
func fmtDirs(ctl string) string {
	set := map[string]bool{}
	for i := 0; i < len(ctl); i++ {
		if ctl[i] != '~' {
			continue
		}
		j := i + 1
		mods := ""
		for j < len(ctl) {
			ch := ctl[j]
			if ch == '\'' && j+1 < len(ctl) {
				j += 2
				continue
			}
			if ch == ':' || ch == '@' {
				if !strings.ContainsRune(mods, rune(ch)) {
					mods += string(ch)
				}
				j++
				continue
			}
			if ch == ',' || ch == '#' || ch == 'v' || ch == 'V' || ch == '-' || ch == '+' || ('0' <= ch && ch <= '9') {
				j++
				continue
			}
			break
		}
		d := "<end>"
		if j < len(ctl) {
			d = strings.ToUpper(string(ctl[j]))
			if ctl[j] == '\n' {
				d = "<nl>"
			} else if ctl[j] < ' ' || 0x7e < ctl[j] {
				d = fmt.Sprintf("<%02x>", ctl[j])
			}
		}
		if mods == "@:" {
			mods = ":@"
		}
		set[mods+d] = true
		i = j
	}
	var ds []string
	for d := range set {
		ds = append(ds, d)
	}
	sort.Strings(ds)
	return strings.Join(ds, " ")
}

func fmtCall(scope *slip.Scope, ctl string, args []string) (slip.Object, *sl.Err, string) {
	form := slip.List{slip.Symbol("common-lisp:format"), nil, slip.String(ctl)}
	for _, a := range args {
		po := poolIndex[a]
		if po == nil {
			return nil, nil, "unknown pool object " + a
		}
		if po.Form {
			form = append(form, slip.ReadString(po.Src, scope)[0])
			continue
		}
		obj, err := sl.Eval(scope, po.Src)
		if err != nil {
			_ = sl.Catch(setupWorld)
			if obj, err = sl.Eval(scope, po.Src); err != nil {
				return nil, nil, fmt.Sprintf("pool object %s cannot be built: %s", a, err)
			}
		}
		form = append(form, slip.List{slip.Symbol("quote"), obj})
	}
	steps = 0
	var res slip.Object
	err := sl.Catch(func() { res = scope.Eval(form, 0) })
	return res, err, ""
}

func renderFmt(ctl string, args []string) string {
	var b strings.Builder
	fmt.Fprintf(&b, "(format nil %q", ctl)
	for _, a := range args {
		b.WriteByte(' ')
		b.WriteString(poolIndex[a].Src)
	}
	b.WriteByte(')')
	return b.String()
}

func execFmt(x *fw.Ctx, c *Case) {
	scope := newScope()
	dirs := fmtDirs(c.Ctl)
	x.Cover("fmt-calls")
	for _, d := range strings.Fields(dirs) {
		x.Cover("fmt-dir:" + d)
	}
	markContext("fmt dirs=" + dirs)
	a0 := allocBytes()
	_, err, herr := fmtCall(scope, c.Ctl, c.Args)
	used := allocBytes() - a0
	if herr != "" {
		x.Fail("harness-pool", "%s", herr)
		return
	}
	oc := classify(err)
	obs := map[string]any{"call": renderFmt(c.Ctl, c.Args), "outcome": oc.kind}
	x.Observe(obs)
	x.Cover("fmt-outcome:" + oc.kind)
	if oc.err != nil {
		obs["condition"] = oc.err.Class
	}
	switch oc.kind {
	case "fault":
		// shrink the control string (delete one byte at a time while the same
		// kind of fault remains) so that the signature names the directive
		ctl, args := c.Ctl, c.Args
		same := func(ct string, ar []string) bool {
			_, e, h := fmtCall(newScope(), ct, ar)
			o := classify(e)
			return h == "" && o.kind == "fault" && o.fault == oc.fault
		}
		for changed := true; changed; {
			changed = false
			for i := 0; i < len(ctl); i++ {
				if cand := ctl[:i] + ctl[i+1:]; same(cand, args) {
					ctl, changed = cand, true
					i--
				}
			}
			for 0 < len(args) && same(ctl, args[:len(args)-1]) {
				args, changed = args[:len(args)-1], true
			}
		}
		x.Fail(fmt.Sprintf("fault=%s fmt dirs=%s", oc.fault, fmtDirs(ctl)), "%s => internal fault reported as %s: %s (shrunk: %s)",
			renderFmt(c.Ctl, c.Args), oc.err.Class, oc.err.Msg, renderFmt(ctl, args))
	case "budget":
		x.Fail("over-budget fmt dirs="+dirs, "%s => more than %d evaluation steps", renderFmt(c.Ctl, c.Args), stepBudget)
	case "undocumented":
		x.Fail("not-a-condition fmt dirs="+dirs, "%s => signalled a non-condition: %v %s", renderFmt(c.Ctl, c.Args), oc.err.Chain, oc.err.Msg)
	}
	if allocBudget < used {
		x.Fail("alloc fmt dirs="+dirs, "%s => allocated %d MiB", renderFmt(c.Ctl, c.Args), used>>20)
	}
	afterCase(x, c)
	canary(x, "fmt dirs="+dirs)
}

// skippedFmt: control strings that are not generated (see skiptable.go).
func skippedFmt(ctl string, args []string) string {
	for i := range fmtSkips {
		e := &fmtSkips[i]
		if e.Ctl != "" && e.Ctl != ctl {
			continue
		}
		if e.Contains != "" && !strings.Contains(ctl, e.Contains) {
			continue
		}
		ok := true
		for k, p := range e.Args {
			if len(args) <= k || !argMatch(p, args[k]) {
				ok = false
			}
		}
		if ok {
			return e.Finding
		}
	}
	return ""
}

type fmtSkip struct {
	Ctl      string   // exact control string, or
	Contains string   // substring of the control string
	Args     []string // argument patterns (prefix)
	Finding  string
}
