package c09

import (
	"bytes"
	"fmt"
	"io"
	"math/rand/v2"
	"strconv"
	"strings"

	"github.com/ohler55/slip"

	"verif/internal/fw"
	"verif/internal/sl"
)

// 40 syntactically active bytes.
var rdAlphabet = []byte("()'\"`,@#|\\;:. \n+-/*019abex&<=~[{!?_%\x00\x7f\x80\xff")

// corpus of well-formed texts the seeded mutations start from
var rdCorpus = []string{
	"(defun f (x &optional (y 2)) (+ x y))", "'(1 2.5 -3/4 1e10 1.5d0 2.5s-3 #xFF #b101 #o17 #3r12)", "\"a \\\"quoted\\\" string\\n\"",
	"#\\a #\\Space #\\Newline #\\u+0041 #\\x", "#(1 2 #(3 4)) #*1011 #2A((1 2) (3 4))", "`(a ,b ,@c . d)", "'(a . b) '(a b . c)", "|odd Symbol| foo:bar :key cl::car",
	"#'car #.(+ 1 2) #+slip x #-slip y", "; comment\n(a) #| block #| nested |# |# b", "#C(1 2) #c(1.5 -2)", "(let ((x 1)) (setq x (1+ x)) x)", "@2024-01-02T03:04:05Z",
	"#1=(a b) #1#", "#P\"/tmp/x\" #S(foo :a 1)", "1. .5 -.5e3 +5 1/0 1/2/3 1e 1e+ --1 +-1", "(a\n (b\n  (c)))\n", "#:gensym #:|x y|", "'() () nil NIL t", "#\\( #\\) #\\\\ #\\|",
}

var rdVias = []string{"bytes", "one", "stream", "rfs"}

var rdStress []func() []byte

func init() {
	rep := func(s string, n int) []byte { return bytes.Repeat([]byte(s), n) }
	rdStress = []func() []byte{
		func() []byte { return append(rep("(", 10000), rep(")", 10000)...) },
		func() []byte { return rep("(", 10000) },
		func() []byte { return rep(")", 10000) },
		func() []byte { return append(rep("'", 10000), 'a') },
		func() []byte { return append(rep("`", 5000), 'a') },
		func() []byte { return append(rep("#(", 5000), rep(")", 5000)...) },
		func() []byte { return append(append(rep("`(,", 3000), 'a'), rep(")", 3000)...) },
		func() []byte { return rep("a", 1<<20) },
		func() []byte { return rep("1", 20000) },
		func() []byte { return append(append([]byte{'"'}, rep("x", 1<<20)...), '"') },
		func() []byte { return append(append([]byte{'|'}, rep("x", 1<<20)...), '|') },
		func() []byte { return append([]byte("#*"), rep("1", 1<<20)...) },
		func() []byte { return append([]byte("1."), rep("0", 100000)...) },
		func() []byte { return append([]byte("1e"), rep("9", 1000)...) },
		func() []byte { return append(rep("1/", 1000), '1') },
		func() []byte { return rep("#|", 10000) },
		func() []byte { return append(rep("#|", 5000), rep("|#", 5000)...) },
		func() []byte { return rep("; x\n", 100000) },
		func() []byte { return rep("\\", 100001) },
		func() []byte { return rep("a:", 10000) },
		func() []byte { return append([]byte("#"), append(rep("9", 1000), 'r', '1')...) },
		func() []byte { return append([]byte("#"), append(rep("9", 1000), 'A', '(', ')')...) },
		func() []byte { return rep("(a . ", 5000) },
		func() []byte { return rep("#\\", 50000) },
		func() []byte { return rep("\xff", 70000) },
		func() []byte { return append(rep("x", 65535), '(', 'a', ')') },
		func() []byte { return append(rep(" ", 65534), []byte("\"ab\\\"cd\" |e f| #\\Space 12345 (q)")...) },
	}
}

func rdExh() int {
	n := len(rdAlphabet)
	return 1 + n + n*n + n*n*n
}

func rdDetN() int { return rdExh() + 256*4 + len(rdStress)*len(rdVias) }

// rdNumTokens: number-like tokens whose reading depends on *read-base* and
// *read-default-float-format* (digits above 9, exponent markers that are digits
// in base 16/36, exponents beyond every float format, long digit strings).
var rdNumTokens = []string{"ff", "zz", "10", "-a", "+z.", "1e5", "1.5", "1/2", "a/b", "z/0", "1e400", "1.5e400", "1d400", "1l400", "1s400", "1f400", "1e-400", "1.5e-5000",
	"1e99999", "1e999999999", "1.5l999999999", "1.0e+", "1.e", ".e1", "1e1e1", "#xff", "#36rzz", "#2r102", "#16r1.5", "1.5d0", "2.5s-3", "1.5L0", "1_0", "١٢", "1e٣",
	"123456789012345678901234567890", "zzzzzzzzzzzzzzzzzzzzzzzzzzzzzzzz", "0.000000000000000000000000000000000000000000000000001", "1.7976931348623157e309", "3.5e38", "-3.5f38",
	"1/000", "0/1e5", "ff/zz", "1.5/2", "e", "E5", "d0", "1e", "+", "-", "+.", "-.e"}

func rdAmbN() int {
	n := len(rdAlphabet)
	return (1+n+n*n)*len(rdAmbients) + len(rdCorpus)*len(rdVias)*len(rdAmbients) + len(rdNumTokens)*2*len(rdAmbients) + len(rdStress)*len(rdAmbients)
}

// genRdAmb: the deterministic ambient block of the reader: every byte string
// of length <= 2, the corpus through every delivery path, the number-like
// tokens and the stress texts, each under every reader ambient state.
func genRdAmb(k int) Case {
	n, nA := len(rdAlphabet), len(rdAmbients)
	amb := rdAmbients[k%nA]
	k /= nA
	switch {
	case k == 0:
		return Case{K: "rd", Src: []byte{}, Via: "bytes", Amb: amb}
	case k < 1+n:
		return Case{K: "rd", Src: []byte{rdAlphabet[k-1]}, Via: "bytes", Amb: amb}
	case k < 1+n+n*n:
		k -= 1 + n
		return Case{K: "rd", Src: []byte{rdAlphabet[k/n], rdAlphabet[k%n]}, Via: "bytes", Amb: amb}
	}
	k -= 1 + n + n*n
	if k < len(rdCorpus)*len(rdVias) {
		return Case{K: "rd", Src: []byte(rdCorpus[k/len(rdVias)]), Via: rdVias[k%len(rdVias)], Amb: amb}
	}
	k -= len(rdCorpus) * len(rdVias)
	if k < len(rdNumTokens)*2 {
		return Case{K: "rd", Src: []byte(rdNumTokens[k/2]), Via: []string{"bytes", "rfs"}[k%2], Amb: amb}
	}
	k -= len(rdNumTokens) * 2
	return Case{K: "rd", Src: []byte("stress:" + strconv.Itoa(k)), Via: "Sbytes", Amb: amb}
}

func genRd(r *rand.Rand, k int) Case {
	n := len(rdAlphabet)
	switch {
	case k == 0:
		return Case{K: "rd", Src: []byte{}, Via: "bytes"}
	case k < 1+n:
		return Case{K: "rd", Src: []byte{rdAlphabet[k-1]}, Via: "bytes"}
	case k < 1+n+n*n:
		k -= 1 + n
		return Case{K: "rd", Src: []byte{rdAlphabet[k/n], rdAlphabet[k%n]}, Via: "bytes"}
	case k < rdExh():
		k -= 1 + n + n*n
		return Case{K: "rd", Src: []byte{rdAlphabet[k/(n*n)], rdAlphabet[(k/n)%n], rdAlphabet[k%n]}, Via: "bytes"}
	}
	k -= rdExh()
	if k < 256*4 {
		b := byte(k % 256)
		switch k / 256 {
		case 0:
			return Case{K: "rd", Src: []byte{'#', b}, Via: "bytes"}
		case 1:
			return Case{K: "rd", Src: []byte{'#', '2', b, '1'}, Via: "bytes"}
		case 2:
			return Case{K: "rd", Src: []byte{'#', '\\', b}, Via: "bytes"}
		}
		return Case{K: "rd", Src: []byte{'#', b, '(', '1', ')'}, Via: "bytes"}
	}
	k -= 256 * 4
	if k < len(rdStress)*len(rdVias) {
		// the text is rebuilt in exec from its index (1 MiB texts do not belong in case files)
		return Case{K: "rd", Src: []byte("stress:" + strconv.Itoa(k/len(rdVias))), Via: "S" + rdVias[k%len(rdVias)]}
	}
	// seeded
	via := fw.Pick(r, rdVias)
	var src []byte
	switch r.IntN(4) {
	case 0: // random bytes over the alphabet
		for m := 4 + r.IntN(30); 0 < m; m-- {
			src = append(src, rdAlphabet[r.IntN(n)])
		}
	default:
		src = []byte(fw.Pick(r, rdCorpus))
		if r.IntN(3) == 0 {
			src = append(src, ' ')
			src = append(src, fw.Pick(r, rdCorpus)...)
		}
		for m := 1 + r.IntN(3); 0 < m && 0 < len(src); m-- {
			p := r.IntN(len(src))
			switch r.IntN(7) {
			case 0: // bit flip
				src[p] ^= 1 << r.IntN(8)
			case 1: // truncate
				src = src[:p]
			case 2: // duplicate a byte (delimiters included)
				src = append(src[:p+1], src[p:]...)
			case 3: // delete
				src = append(src[:p], src[p+1:]...)
			case 4: // insert an active byte
				src = append(src[:p], append([]byte{rdAlphabet[r.IntN(n)]}, src[p:]...)...)
			case 5: // replace with an active byte
				src[p] = rdAlphabet[r.IntN(n)]
			case 6: // drop the head
				src = src[p:]
			}
		}
	}
	return Case{K: "rd", Src: src, Via: via}
}

type chunkReader struct {
	b []byte
	n int
}

func (c *chunkReader) Read(p []byte) (int, error) {
	if len(c.b) == 0 {
		return 0, io.EOF
	}
	n := min(c.n, len(c.b), len(p))
	copy(p, c.b[:n])
	c.b = c.b[n:]
	return n, nil
}

func readOnce(via string, src []byte) (int, *sl.Err) {
	scope := newScope()
	cp := append([]byte{}, src...)
	n := 0
	err := sl.Catch(func() {
		switch via {
		case "bytes":
			n = len(slip.Read(cp, scope))
		case "one":
			code, _ := slip.ReadOne(cp, scope)
			n = len(code)
		case "stream":
			code, _ := slip.ReadStream(&chunkReader{b: cp, n: 7}, scope)
			n = len(code)
		case "rfs":
			form := slip.List{slip.Symbol("common-lisp:read-from-string"), slip.String(cp)}
			_ = scope.Eval(form, 0)
			n = 1
		}
	})
	return n, err
}

func leadStr(b []byte) string { return sigName(fmt.Sprintf("%q", b)) }

func quoteBytes(b []byte) string {
	if 60 < len(b) {
		return fmt.Sprintf("%q... (%d bytes)", b[:60], len(b))
	}
	return fmt.Sprintf("%q", b)
}

func execRd(x *fw.Ctx, c *Case) {
	src, via := c.Src, c.Via
	if strings.HasPrefix(via, "S") {
		via = via[1:]
		k, _ := strconv.Atoi(strings.TrimPrefix(string(src), "stress:"))
		src = rdStress[k]()
		x.Cover("rd-stress")
	}
	x.Cover("rd-via:" + via)
	x.CoverN("rd-bytes", len(src))
	lead := src
	if 2 < len(lead) {
		lead = lead[:2]
	}
	ambsig := ""
	if c.Amb != "" {
		x.Cover("rd-ambient:" + c.Amb)
		ambsig = " amb=" + c.Amb
		if _, herr := ambEnter(c.Amb, nil); herr != "" {
			ambLeave()
			x.Fail("harness-pool", "%s", herr)
			return
		}
	}
	markContext(fmt.Sprintf("read via=%s lead=%s%s", via, leadStr(lead), ambsig))
	a0 := allocBytes()
	n, err := readOnce(via, src)
	used := allocBytes() - a0
	oc := classify(err)
	if c.Amb != "" {
		ambLeave()
		x.Cover("rd-ambient-outcome:" + c.Amb + ":" + oc.kind)
		if oc.kind == "fault" || oc.kind == "undocumented" || oc.kind == "budget" {
			// Differential: the same text in the default state.
			_, err2 := readOnce(via, src)
			if o2 := classify(err2); o2.kind == oc.kind && o2.fault == oc.fault {
				ambsig = ""
				x.Cover("rd-ambient:same-failure-in-default-state")
			}
		}
	}
	reenter := func() {
		if ambsig != "" {
			_, _ = ambEnter(c.Amb, nil)
		}
	}
	obs := map[string]any{"input": quoteBytes(src), "via": via, "outcome": oc.kind, "objects": n}
	x.Observe(obs)
	if oc.err != nil {
		obs["condition"] = oc.err.Class
		x.Cover("rd-condition:" + oc.err.Class)
	}
	x.Cover("rd-outcome:" + oc.kind)
	switch oc.kind {
	case "fault":
		min := src
		reenter() // the shrinker reads under the ambient state the fault needs
		if len(min) <= 200 {
			same := func(b []byte) bool {
				_, e := readOnce(via, b)
				o := classify(e)
				return o.kind == "fault" && o.fault == oc.fault
			}
			for changed := true; changed; {
				changed = false
				for i := 0; i < len(min); i++ {
					cand := append(append([]byte{}, min[:i]...), min[i+1:]...)
					if same(cand) {
						min, changed = cand, true
						i--
					}
				}
			}
		}
		if ambsig != "" {
			ambLeave()
		}
		ml := min
		if 2 < len(ml) {
			ml = ml[:2]
		}
		x.Fail(sigName(fmt.Sprintf("fault=%s read lead=%s%s", oc.fault, leadStr(ml), ambsig)), "reading %s (via %s)%s => internal fault reported as %s: %s (shrunk input: %s)",
			quoteBytes(src), via, ambText(c.Amb), oc.err.Class, oc.err.Msg, quoteBytes(min))
	case "raw-panic":
		// slip.Read panics with a bare Go string for a few malformed tokens
		// ("invalid number base 333"); every Lisp-level path (read-from-string,
		// load, the REPL) turns that into a plain error condition, so it is
		// counted, not judged.
		x.Cover("rd-go-string-panic-at-go-api")
	case "budget":
		x.Fail(fmt.Sprintf("over-budget read lead=%s%s", leadStr(lead), ambsig), "reading %s%s => more than %d evaluation steps", quoteBytes(src), ambText(c.Amb), stepBudget)
	case "undocumented":
		x.Fail(fmt.Sprintf("not-a-condition read lead=%s%s", leadStr(lead), ambsig), "reading %s (via %s)%s => signalled a non-condition: %v %s", quoteBytes(src), via, ambText(c.Amb), oc.err.Chain, oc.err.Msg)
	}
	// cumulative allocation: math/big parses a token of n digits with O(n^2) bytes of
	// short-lived garbage (1 MiB of digits: 5.5 GiB allocated, 200 MiB resident), which is
	// bounded and proportional to the work; the budget has a quadratic term that only
	// matters for inputs beyond 64 KiB. The 3 GiB address-space cap bounds the peak.
	if allocBudget+uint64(64*len(src))+uint64(len(src))*uint64(len(src))/128 < used {
		x.Fail(fmt.Sprintf("alloc read lead=%s%s", leadStr(lead), map[bool]string{true: " amb=" + c.Amb, false: ""}[c.Amb != ""]), "reading %s (via %s)%s => allocated %d MiB", quoteBytes(src), via, ambText(c.Amb), used>>20)
	}
	afterCase(x, c)
	canary(x, "read lead="+leadStr(lead))
}
