package c09

import (
	"math"

	"github.com/ohler55/slip"
)

// The fixed pool of representative objects of the property's quantifier.
//
// Every pool entry is a slip source expression that is evaluated afresh for
// every case that uses it (functions may destroy their arguments: nreverse,
// close, vector-pop ...), in the case's own scope, BEFORE the call under
// observation; the call itself then receives the resulting object wrapped in
// (quote ...). Entries marked Form are inserted as the expression itself,
// because the object they stand for only exists as the result of evaluating
// an argument form ((values) and (values 1 2)).
//
// Class is the coarse type name used in violation signatures.

type poolObj struct {
	Name  string
	Class string
	Src   string
	Form  bool
	// Make builds objects that have no source text (invalid UTF-8, NUL,
	// 4 000-deep nesting, symbols of unknown packages); Src is then only
	// the rendering used in messages.
	Make func() slip.Object
}

const (
	big62  = "4611686018427387904"    // 2^62, a fixnum
	big70  = "1180591620717411303424" // 2^70, a bignum
	big40  = "1099511627776"          // 2^40
	minFix = "-9223372036854775808"   // most negative fixnum
	maxFix = "9223372036854775807"    // most positive fixnum
)

var pool = []poolObj{
	{"nil", "null", "nil", false, nil},
	{"t", "t", "t", false, nil},
	{"zero", "zero", "0", false, nil},
	{"one", "posint", "1", false, nil},
	{"three", "posint", "3", false, nil},
	{"neg1", "negint", "-1", false, nil},
	{"big62", "hugefix", big62, false, nil},
	{"minfix", "minfix", minFix, false, nil},
	{"big70", "bignum", big70, false, nil},
	{"maxfix", "maxfix", maxFix, false, nil},
	{"negbig70", "bignum", "-" + big70, false, nil},
	{"negratio", "ratio", "-7/3", false, nil},
	{"negzero", "float", "-0.0", false, nil},
	{"five", "posint", "5", false, nil},
	// the largest radix, one more, and the size of a byte
	{"n36", "posint", "36", false, nil},
	{"n37", "posint", "37", false, nil},
	{"n256", "posint", "256", false, nil},
	// what float arithmetic hands out at its edges: (* 1d308 10) and the difference of two of those
	{Name: "inf", Class: "inf", Src: "(* 1d308 10)", Make: func() slip.Object { return slip.DoubleFloat(math.Inf(1)) }},
	{Name: "nan", Class: "nan", Src: "(- (* 1d308 10) (* 1d308 10))", Make: func() slip.Object { return slip.DoubleFloat(math.NaN()) }},
	// strings whose character count and byte count differ, and digits beyond a machine word
	{"nonascii-str", "string", `"ééé"`, false, nil},
	{"digits-str", "string", `"99999999999999999999 "`, false, nil},
	// integers of the small and sized types (what aref of an octets vector or a bit-vector, or
	// coerce, hands out): they only become fixnums when a function normalizes its numbers
	{"octet0", "octet", "(coerce 0 'octet)", false, nil},
	{"octet7", "octet", "(coerce 7 'octet)", false, nil},
	{"bit0", "bit", "(bit #*0110 0)", false, nil},
	{"bit1", "bit", "(bit #*0110 1)", false, nil},
	{"sbyte0", "sizedint", "(coerce 0 'signed-byte)", false, nil},
	{"ubyte0", "sizedint", "(coerce 0 'unsigned-byte)", false, nil},
	{"sbyte-neg", "sizedint", "(coerce -3 'signed-byte)", false, nil},
	{"ratio", "ratio", "1/2", false, nil},
	{"double", "float", "1.5", false, nil},
	{"single", "float", "2.5f0", false, nil},
	{"long", "longfloat", "1.5L0", false, nil},
	{"complex", "complex", "#C(1 2)", false, nil},
	{"str", "string", `"abc"`, false, nil},
	{"empty-str", "emptystring", `""`, false, nil},
	{"tilde-str", "string", `"~a ~d"`, false, nil},
	{"sym", "symbol", "'foo", false, nil},
	{"fsym", "symbol", "'c09-fn", false, nil},
	{"vsym", "symbol", "'c09-var", false, nil},
	{"keyword", "keyword", ":start", false, nil}, // not :test - that designates the package named test
	{"char", "character", `#\a`, false, nil},
	{"list3", "list", "'(1 2 3)", false, nil},
	{"list1", "list", "'(a)", false, nil},
	{"dotted", "dotted", "'(1 . 2)", false, nil},
	{"dotted3", "dotted", "'(1 2 . 3)", false, nil},
	{"alist", "list", "'((a . 1) (b . 2))", false, nil},
	{"plist", "list", "'(:a 1 :b 2)", false, nil},
	{"nested", "list", "'((1 2) (3 4))", false, nil},
	{"form", "list", "'(+ 1 2)", false, nil},
	{"lambda-expr", "list", "'(lambda (x) x)", false, nil},
	{"vector", "vector", "(vector 1 2 3)", false, nil},
	{"empty-vec", "emptyvector", "(vector)", false, nil},
	{"fp-vec", "vector", "(make-array 4 :fill-pointer 2 :adjustable t)", false, nil},
	{"array2d", "array", "(make-array '(2 2) :initial-element 0)", false, nil},
	{"octets", "octets", `(string-to-octets "abc")`, false, nil},
	{"bitvec", "bit-vector", "#*1011", false, nil},
	{"hash", "hash-table", "(let ((h (make-hash-table))) (setf (gethash 'a h) 1) h)", false, nil},
	{"in-stream", "stream", `(make-string-input-stream "abc def")`, false, nil},
	{"out-stream", "stream", "(make-string-output-stream)", false, nil},
	{"closed-stream", "closedstream", `(let ((s (make-string-input-stream "x"))) (close s) s)`, false, nil},
	{"package", "package", "(or (find-package 'c09-scratch) (make-package 'c09-scratch))", false, nil},
	{"class", "class", "(find-class 'c09-class)", false, nil},
	{"flavor", "flavor", "(find-flavor 'c09-flavor)", false, nil},
	{"flavor-inst", "instance", "(make-instance 'c09-flavor)", false, nil},
	{"clos-inst", "instance", "(make-instance 'c09-class)", false, nil},
	{"condition", "condition", "(make-condition 'type-error :datum 1 :expected-type 'string)", false, nil},
	{"lambda", "function", "(lambda (&rest args) args)", false, nil},
	{"builtin", "function", "#'car", false, nil},
	{"channel", "channel", "(let ((c (make-channel 4))) (channel-push c 1) (channel-push c 2) c)", false, nil},
	{"mutex", "instance", "(make-mutex)", false, nil},
	{"time", "time", "(make-time 2024 1 2 3 4 5)", false, nil},
	{"bag", "instance", `(make-bag "{a:1 b:[1 2]}")`, false, nil},
	{"bag-path", "bag-path", `(make-bag-path "a.b")`, false, nil},
	{"random-state", "random-state", "(make-random-state)", false, nil},
	{"struct", "instance", "(make-c09-struct :a 1)", false, nil},
	// round 2: hostile vectors
	{Name: "big40", Class: "big40", Src: big40}, // a count no allocation can satisfy but makeslice accepts
	{Name: "bad-utf8", Class: "badstring", Src: `"\xff\xfeab\xc3"`, Make: func() slip.Object { return slip.String("\xff\xfeab\xc3") }},
	{Name: "nul-str", Class: "nulstring", Src: `"a\x00b"`, Make: func() slip.Object { return slip.String("a\x00b") }},
	{Name: "deep-list", Class: "deeplist", Src: "'((((...4000 deep...))))", Make: deepList},
	{Name: "closed-channel", Class: "closedchannel", Src: "(let ((c (make-channel 2))) (channel-push c 1) (channel-close c) c)"},
	{Name: "closed-out-stream", Class: "closedstream", Src: "(let ((s (make-string-output-stream))) (close s) s)"},
	{Name: "unk-pkg-sym", Class: "pkgsymbol", Src: "'nosuchpkg:foo", Make: func() slip.Object { return slip.Symbol("nosuchpkg:foo") }},
	{Name: "colon-sym", Class: "pkgsymbol", Src: "'|a:b:c|", Make: func() slip.Object { return slip.Symbol("a:b:c") }},
	{"values0", "values0", "(values)", true, nil},
	{"values2", "values2", "(values 1 2)", true, nil},
}

// smallPool: the reduced pool for the exhaustive 3-tuple block.
var smallPool = []string{"nil", "zero", "neg1", "big62", "str", "sym", "keyword", "list3", "dotted", "vector", "hash", "lambda", "in-stream", "values0"}

// numPool: every ordered pair of these for every function that documents a numeric
// parameter, in both tiers: the places where machine arithmetic has an edge.
var numPool = []string{"zero", "one", "neg1", "three", "big62", "minfix", "maxfix", "big70", "negbig70", "ratio", "negratio", "double", "negzero", "single", "long", "complex",
	"octet0", "octet7", "bit0", "bit1", "sbyte0", "ubyte0", "sbyte-neg", "inf", "nan", "n36", "n37", "n256"}

// quickPool: the quick tier walks every pair of these for every function.
var quickPool = []string{"nil", "zero", "three", "neg1", "big62", "big40", "bad-utf8", "deep-list", "double", "str", "sym", "keyword", "char", "list3", "list1", "dotted", "vector", "hash", "lambda", "in-stream"}

const deepDepth = 4000

// deepList nests a one-element list deepDepth times: ((((...(x)...)))).
func deepList() slip.Object {
	var obj slip.Object = slip.List{slip.Symbol("x")}
	for i := 1; i < deepDepth; i++ {
		obj = slip.List{obj}
	}
	return obj
}

var poolIndex = map[string]*poolObj{}

func init() {
	for i := range pool {
		poolIndex[pool[i].Name] = &pool[i]
	}
}

// The helpers the pool refers to (c09-fn, c09-var, c09-class, c09-flavor,
// c09-struct) are defined by setupWorld in c09.go, at worker start and again
// whenever a case has damaged one of them.
