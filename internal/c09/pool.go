package c09

// The fixed pool of representative objects of the property's quantifier.
//
// Every pool entry is a slip source expression that is evaluated afresh for
// every case that uses it (functions may destroy their arguments: nreverse,
// close, vector-pop ...), in the case's own scope, BEFORE the call under
// observation; the call itself then receives the resulting object wrapped in
// (quote ...). Entries marked Form are inserted as the expression itself,
// because the object they stand for only exists as the result of evaluating
// an argument form ((values) and (values 1 2)).
//
// Class is the coarse type name used in violation signatures.

type poolObj struct {
	Name  string
	Class string
	Src   string
	Form  bool
}

const (
	big62  = "4611686018427387904"    // 2^62, a fixnum
	big70  = "1180591620717411303424" // 2^70, a bignum
	minFix = "-9223372036854775808"   // most negative fixnum
)

var pool = []poolObj{
	{"nil", "null", "nil", false},
	{"t", "t", "t", false},
	{"zero", "zero", "0", false},
	{"one", "posint", "1", false},
	{"three", "posint", "3", false},
	{"neg1", "negint", "-1", false},
	{"big62", "hugefix", big62, false},
	{"minfix", "minfix", minFix, false},
	{"big70", "bignum", big70, false},
	{"ratio", "ratio", "1/2", false},
	{"double", "float", "1.5", false},
	{"single", "float", "2.5f0", false},
	{"long", "longfloat", "1.5L0", false},
	{"complex", "complex", "#C(1 2)", false},
	{"str", "string", `"abc"`, false},
	{"empty-str", "emptystring", `""`, false},
	{"tilde-str", "string", `"~a ~d"`, false},
	{"sym", "symbol", "'foo", false},
	{"fsym", "symbol", "'c09-fn", false},
	{"vsym", "symbol", "'c09-var", false},
	{"keyword", "keyword", ":start", false}, // not :test - that designates the package named test
	{"char", "character", `#\a`, false},
	{"list3", "list", "'(1 2 3)", false},
	{"list1", "list", "'(a)", false},
	{"dotted", "dotted", "'(1 . 2)", false},
	{"dotted3", "dotted", "'(1 2 . 3)", false},
	{"alist", "list", "'((a . 1) (b . 2))", false},
	{"plist", "list", "'(:a 1 :b 2)", false},
	{"nested", "list", "'((1 2) (3 4))", false},
	{"form", "list", "'(+ 1 2)", false},
	{"lambda-expr", "list", "'(lambda (x) x)", false},
	{"vector", "vector", "(vector 1 2 3)", false},
	{"empty-vec", "emptyvector", "(vector)", false},
	{"fp-vec", "vector", "(make-array 4 :fill-pointer 2 :adjustable t)", false},
	{"array2d", "array", "(make-array '(2 2) :initial-element 0)", false},
	{"octets", "octets", `(string-to-octets "abc")`, false},
	{"bitvec", "bit-vector", "#*1011", false},
	{"hash", "hash-table", "(let ((h (make-hash-table))) (setf (gethash 'a h) 1) h)", false},
	{"in-stream", "stream", `(make-string-input-stream "abc def")`, false},
	{"out-stream", "stream", "(make-string-output-stream)", false},
	{"closed-stream", "closedstream", `(let ((s (make-string-input-stream "x"))) (close s) s)`, false},
	{"package", "package", "(or (find-package 'c09-scratch) (make-package 'c09-scratch))", false},
	{"class", "class", "(find-class 'c09-class)", false},
	{"flavor", "flavor", "(find-flavor 'c09-flavor)", false},
	{"flavor-inst", "instance", "(make-instance 'c09-flavor)", false},
	{"clos-inst", "instance", "(make-instance 'c09-class)", false},
	{"condition", "condition", "(make-condition 'type-error :datum 1 :expected-type 'string)", false},
	{"lambda", "function", "(lambda (&rest args) args)", false},
	{"builtin", "function", "#'car", false},
	{"channel", "channel", "(let ((c (make-channel 4))) (channel-push c 1) (channel-push c 2) c)", false},
	{"mutex", "instance", "(make-mutex)", false},
	{"time", "time", "(make-time 2024 1 2 3 4 5)", false},
	{"bag", "instance", `(make-bag "{a:1 b:[1 2]}")`, false},
	{"bag-path", "bag-path", `(make-bag-path "a.b")`, false},
	{"random-state", "random-state", "(make-random-state)", false},
	{"struct", "instance", "(make-c09-struct :a 1)", false},
	{"values0", "values0", "(values)", true},
	{"values2", "values2", "(values 1 2)", true},
}

// smallPool: the reduced pool for the exhaustive 3-tuple block.
var smallPool = []string{"nil", "zero", "neg1", "big62", "str", "sym", "keyword", "list3", "dotted", "vector", "hash", "lambda", "in-stream", "values0"}

// quickPool: the quick tier walks every pair of these for every function.
var quickPool = []string{"nil", "zero", "three", "neg1", "big62", "double", "str", "sym", "keyword", "char", "list3", "list1", "dotted", "vector", "hash", "lambda", "in-stream"}

var poolIndex = map[string]*poolObj{}

func init() {
	for i := range pool {
		poolIndex[pool[i].Name] = &pool[i]
	}
}

// The helpers the pool refers to (c09-fn, c09-var, c09-class, c09-flavor,
// c09-struct) are defined by setupWorld in c09.go, at worker start and again
// whenever a case has damaged one of them.
