package c09

// skipTable: see the comment on skipEntry in funcs.go. Entries are added only
// after the construct was observed to hang (or to loop by definition) on the
// real interpreter.
var skipTable = []skipEntry{}

// fmtSkips: format control strings that are not generated.
var fmtSkips = []fmtSkip{}
