package c09

// skipTable: see the comment on skipEntry in funcs.go. Entries are added only
// after the construct was observed to hang on the real interpreter; each names
// the finding (findings/C09.json, witness = a probe case) it belongs to. Constructs
// that are non-terminating by the language definition are handled by
// byDefinition (funcs.go) and fmtRisk (format.go).
var skipTable = []skipEntry{
	// (read-line <closed string stream>) span for ever until c7da2ea; generated again since.
}

// fmtSkips: format control strings that are not generated (beyond fmtRisk).
var fmtSkips = []fmtSkip{}
