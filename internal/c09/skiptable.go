package c09

// skipTable: see the comment on skipEntry in funcs.go. Entries are added only
// after the construct was observed to hang on the real interpreter; each names
// the finding (findings/C09.json, witness = a probe case) it belongs to. Constructs
// that are non-terminating by the language definition are handled by
// byDefinition (funcs.go) and fmtRisk (format.go).
var skipTable = []skipEntry{
	// (do () (t)) never ends: setupDo only installs an end-test form that is a
	// list; a symbol or literal test is dropped and the loop runs for ever.
	// In quoted mode the end-test clause is (quote x), whose test form is the
	// symbol quote.
	{Fn: "common-lisp:do", Raw: 2, Args: []string{"*", "*"}, Finding: "do-nonlist-end-test"},
	{Fn: "common-lisp:do", Raw: 1, Args: []string{"*", "@list|@dotted|@values0|@values2"}, Finding: "do-nonlist-end-test"},
	{Fn: "common-lisp:do*", Raw: 2, Args: []string{"*", "*"}, Finding: "do-nonlist-end-test"},
	{Fn: "common-lisp:do*", Raw: 1, Args: []string{"*", "@list|@dotted|@values0|@values2"}, Finding: "do-nonlist-end-test"},
	// (expt 3 4611686018427387904): the exact integer power is computed by
	// repeated multiplication with no bound on the size of the result
	{Fn: "common-lisp:expt", Args: []string{"*", "big62"}, Finding: "expt-huge-exponent"},
	// (read-line <closed string stream>) spins for ever
	{Fn: "common-lisp:read-line", Args: []string{"closed-stream"}, Finding: "read-line-closed-stream"},
}

// fmtSkips: format control strings that are not generated (beyond fmtRisk).
var fmtSkips = []fmtSkip{}
