package c02

import (
	"fmt"
	"math/big"
	"math/rand/v2"
	"strconv"
	"strings"
	"unicode/utf8"
)

// Seg is one lexical segment of the generated text. The segments cover the
// text without holes, so every cut position is either strictly inside one
// segment or on the boundary between two.
type Seg struct {
	K string `json:"k"`           // ws lcom bcom open vopen aopen copen close prefix dot tok str pipe char rint bits
	S int    `json:"s"`           // start offset
	E int    `json:"e"`           // end offset (exclusive)
	D int    `json:"d,omitempty"` // open delimiters before the segment
	P int    `json:"p,omitempty"` // prefixes (' ` , ,@ #') still waiting for their target before the segment
	F int    `json:"f"`           // index of the top-level form the segment belongs to, -1 for a top-level gap
	X []int  `json:"x,omitempty"` // cut offsets that fall inside an escape sequence (str, pipe)
	R int    `json:"r,omitempty"` // rint/aopen: offset of the radix letter / the A relative to S
	T string `json:"t,omitempty"` // tok: special class of the token (nil, final-t)
	W string `json:"w,omitempty"` // leaf: what the leaf alone denotes ("" = not pinned)
	C string `json:"c,omitempty"` // tok: kind the token classifier gave
}

// Form is one top-level form.
type Form struct {
	S    int    `json:"s"`
	E    int    `json:"e"`
	Want string `json:"want"` // expected rendering, "" when not pinned
	Kind string `json:"kind"` // kind of the form's last segment (what ends it)
	Head string `json:"head"` // kind of the form's first segment
}

// Case is one source text with everything the monitors need to know about it
// without asking slip.
type Case struct {
	Text  string   `json:"text"`
	Base  int      `json:"base"`
	FF    string   `json:"ff"`
	Segs  []Seg    `json:"segs"`
	Forms []Form   `json:"forms"`
	Dirty string   `json:"dirty,omitempty"` // the one construct of the avoid set this text contains
	Feats []string `json:"feats,omitempty"`
	Long  bool     `json:"long,omitempty"` // a long text: fewer deliveries per cut
	Big   *Big     `json:"big,omitempty"`  // a text around one token longer than the 64 KiB read block (rendered at run time)
}

// Big describes a text holding one very long token.
type Big struct {
	Kind string `json:"kind"` // str sym pipe int bits
	Len  int    `json:"len"`  // length of the token body in bytes (about)
	Wrap int    `json:"wrap"` // 0 bare, 1 inside a list, 2 quoted, 3 between other forms
	Pad  int    `json:"pad"`  // leading blanks, shifts which byte of the token meets the block boundary
}

var bases = []int{2, 8, 10, 16, 36}
var floatFormats = []string{"short-float", "single-float", "double-float", "long-float"}

// avoidedKind tells that a token kind belongs to the avoid set. The set is empty: every
// construct the tree once misread has been repaired and is judged in the clean stream.
func avoidedKind(kind string) bool { return false }

type builder struct {
	r     *rand.Rand
	buf   []byte
	segs  []Seg
	forms []Form
	depth int
	pend  int
	form  int // current top-level form index or -1
	bq    int // backquote nesting
	base  int
	ff    string
	dirty string
	used  bool // the dirty construct has been produced
	feats map[string]bool
	last  string // kind of the last segment emitted
	nodes int
	pin   bool     // current top-level form is pinned
	force []string // kinds of the top-level forms (probe block), "" = free choice
	dot   bool     // the next list is a dotted pair
	cpct  int      // chance (percent) of a comment in a gap
	crlf  bool     // every line end is CR LF
}

func (b *builder) emit(kind, text string) *Seg {
	s := Seg{K: kind, S: len(b.buf), E: len(b.buf) + len(text), D: b.depth, P: b.pend, F: b.form}
	b.buf = append(b.buf, text...)
	b.segs = append(b.segs, s)
	b.last = kind
	return &b.segs[len(b.segs)-1]
}

func (b *builder) feat(f string) { b.feats[f] = true }

var wsChoices = []string{" ", " ", " ", "  ", "\n", "\t", " \n ", "\r\n", "\n\n", "   "}

var commentWords = []string{"note", "x y", "(a b", "\"q", "'z", "#\\a", "fixme: 1.5", "é日本", "", "a | b", "; more", "#x1F", "`,@"}

func (b *builder) ws() {
	w := fwPick(b.r, wsChoices)
	if b.crlf {
		w = strings.ReplaceAll(strings.ReplaceAll(w, "\r\n", "\n"), "\n", "\r\n")
	}
	b.emit("ws", w)
}

func (b *builder) comment() {
	if b.r.IntN(2) == 0 {
		txt := ";" + strings.Repeat(";", b.r.IntN(2)) + " " + fwPick(b.r, commentWords)
		txt = strings.ReplaceAll(txt, "\n", " ")
		if b.crlf {
			txt += "\r"
		}
		b.emit("lcom", txt+"\n")
		b.feat("line-comment")
		return
	}
	body := " " + fwPick(b.r, commentWords) + " "
	body = strings.ReplaceAll(body, "|#", "/#")
	if b.r.IntN(4) == 0 {
		body += "\n more "
	}
	if b.r.IntN(100) < 15 {
		body += "|" // #| … ||#
		b.feat("block-comment-bar-bar-hash")
	}
	b.emit("bcom", "#|"+body+"|#")
	b.feat("block-comment")
}

// tokenish: after these a delimiter (whitespace or parenthesis) must follow.
func tokenish(kind string) bool {
	switch kind {
	case "tok", "char", "rint", "bits", "dot", "pipe":
		return true
	}
	return false
}

// gap emits the separation before the next item. nextOpen tells that the
// next item starts with an open parenthesis.
func (b *builder) gap(nextOpen bool) {
	must := true
	switch b.last {
	case "", "close", "str", "open", "vopen", "aopen", "copen", "ws", "lcom", "bcom":
		must = false
	}
	if nextOpen {
		must = false
	}
	if !must && b.r.IntN(100) < 30 {
		return
	}
	if b.last != "ws" {
		b.ws()
	}
	if b.r.IntN(100) < b.cpct {
		b.comment()
		if b.r.IntN(2) == 0 {
			b.ws()
		}
		if b.cpct > 30 && b.r.IntN(3) == 0 {
			b.comment()
		}
	}
}

func fwPick[T any](r *rand.Rand, xs []T) T { return xs[r.IntN(len(xs))] }

var words = []string{
	"foo", "bar", "car", "cdr", "lambda", "defun", "x", "y", "list", "setq", "a1", "b-2", "*print-base*", "+const+",
	"1+", "1-", "<=", ">=", "/=", "&rest", "&optional", "at", "cat", "not", "let", "unit", "quux", "Foo", "BAR",
	"make-instance", "abc", "face", "dead", "e", "d3", "z", "zz-top", "a.b", "$v", "%p", "^up", "_u", "~w", "=", "<", "*", "+", "-", "/",
	"set", "left", "tt", "nil2", "nill", "f", "1e", "e1", "1d", "x1f", "10a", "null?", "a?b", "?x", "eq?",
}

const symFirst = "abcdefghijklmnopqrstuvwxyzABCDEFGHIJKLMNOPQRSTUVWXYZ*+-/<=>$%^_~"
const symRest = "abcdefghijklmnopqrstuvwxyzABCDEFGHIJKLMNOPQRSTUVWXYZ0123456789*+-<=>$%^_~.?"

func (b *builder) symbolText() string {
	for {
		var s string
		if b.r.IntN(100) < 65 {
			s = fwPick(b.r, words)
		} else {
			n := 1 + b.r.IntN(7)
			bs := []byte{symFirst[b.r.IntN(len(symFirst))]}
			for i := 1; i < n; i++ {
				bs = append(bs, symRest[b.r.IntN(len(symRest))])
			}
			s = string(bs)
		}
		if strings.Trim(s, ".") == "" || strings.HasSuffix(s, ".") {
			continue
		}
		if b.r.IntN(12) == 0 && ('a' <= s[0] && s[0] <= 'z') {
			s = ":" + s
		}
		return s
	}
}

const digitChars = "0123456789abcdefghijklmnopqrstuvwxyz"

func (b *builder) digits(base, n int) string {
	bs := make([]byte, n)
	for i := range bs {
		c := digitChars[b.r.IntN(base)]
		if 'a' <= c && b.r.IntN(2) == 0 {
			c -= 32
		}
		bs[i] = c
	}
	return string(bs)
}

func (b *builder) sign(pct int) string {
	if b.r.IntN(100) < pct {
		return fwPick(b.r, []string{"-", "-", "+"})
	}
	return ""
}

func (b *builder) intLen() int {
	switch b.r.IntN(10) {
	case 0:
		return 18 + b.r.IntN(10)
	case 1, 2:
		return 6 + b.r.IntN(8)
	}
	return 1 + b.r.IntN(5)
}

func (b *builder) integerText() string {
	s := b.sign(20) + b.digits(b.base, b.intLen())
	if b.r.IntN(10) == 0 {
		// a trailing point: decimal whatever *read-base* is
		s = b.sign(20) + b.decDigits(b.intLen()) + "."
	}
	return s
}

func (b *builder) ratioText() string {
	for {
		n := b.digits(b.base, 1+b.r.IntN(5))
		d := b.digits(b.base, 1+b.r.IntN(5))
		if strings.Trim(d, "0") == "" {
			continue
		}
		s := b.sign(20) + n + "/" + d
		if _, _, ok := classify(s, b.base, b.ff); ok {
			return s
		}
	}
}

func (b *builder) decDigits(n int) string { return b.digits(10, n) }

func (b *builder) floatText() string {
	marker := ""
	if b.r.IntN(100) < 60 {
		marker = fwPick(b.r, []string{"e", "e", "E", "s", "S", "f", "F", "d", "D", "l", "L"})
	}
	ip := b.decDigits(1 + b.r.IntN(3))
	fp := b.decDigits(1 + b.r.IntN(3))
	var mant string
	switch b.r.IntN(6) {
	case 0:
		if marker == "" {
			mant = ip + "." + fp
		} else {
			mant = ip // 12e3
		}
	case 1:
		if marker == "" {
			mant = ip + "." + fp
		} else {
			mant = ip + "." // 12.e3
		}
	case 2:
		mant = "." + fp // .5
	default:
		mant = ip + "." + fp
	}
	s := b.sign(20) + mant
	if marker != "" {
		s += marker + b.sign(35) + strconv.Itoa(b.r.IntN(21))
	}
	return s
}

var timeTexts = []string{
	"@2024-01-02T03:04:05Z", "@2024-01-02", "@2024-01-02T03:04:05.123Z", "@1999-12-31T23:59:59",
	"@2024-01-02T03:04:05+02:00", "@2024-02-29T12:00:00.000000001Z", "@1970-01-01",
}

// tokenSeg emits a bare token and returns its expected rendering.
func (b *builder) tokenSeg(txt string) (want string, kind string, ok bool) {
	want, kind, ok = classify(txt, b.base, b.ff)
	s := b.emit("tok", txt)
	s.C = kind
	if ok {
		s.W = want
	}
	switch {
	case strings.EqualFold(txt, "nil"):
		s.T = "nil"
	case txt == "t" || txt == "T":
		s.T = "t"
	case 1 < len(txt) && (txt[len(txt)-1] == 't' || txt[len(txt)-1] == 'T'):
		s.T = "final-t"
	}
	b.feat("tok:" + kind)
	return
}

func (b *builder) atomText() string {
	switch p := b.r.IntN(100); {
	case p < 40:
		return b.symbolText()
	case p < 60:
		return b.integerText()
	case p < 68:
		return b.ratioText()
	case p < 84:
		return b.floatText()
	case p < 88:
		return fwPick(b.r, timeTexts)
	case p < 94:
		return fwPick(b.r, []string{"nil", "NIL", "Nil", "nil"})
	default:
		return fwPick(b.r, []string{"t", "T"})
	}
}

// token emits a bare token; tokens the avoid set names are produced only in
// a case dedicated to that kind.
func (b *builder) token() string {
	for {
		txt := b.atomText()
		_, kind, ok := classify(txt, b.base, b.ff)
		if !ok {
			continue
		}
		if avoidedKind(kind) {
			continue
		}
		if b.base < 10 && b.r.IntN(100) < 6 {
			// decimal digits that are not digits of *read-base*: a symbol
			txt = b.sign(30) + b.decDigits(b.r.IntN(3)) + string(rune('0'+b.base+b.r.IntN(10-b.base)))
		}
		if b.dirty == "float-leading-point" && !b.used && b.r.IntN(2) == 0 {
			txt = b.sign(30) + "." + b.decDigits(1+b.r.IntN(3))
			b.used = true
		}
		if b.dirty == "integer-point-nondecimal-base" && !b.used && b.base != 10 && b.r.IntN(2) == 0 {
			txt = b.sign(30) + "1" + b.decDigits(1+b.r.IntN(3)) + "."
			b.used = true
		}
		want, _, _ := b.tokenSeg(txt)
		return want
	}
}

type piece struct {
	lit string
	val string
	esc bool
}

var simpleEsc = []piece{
	{`\n`, "\n", true}, {`\t`, "\t", true}, {`\r`, "\r", true}, {`\b`, "\b", true}, {`\f`, "\f", true},
	{`\"`, "\"", true}, {`\\`, "\\", true},
}

var rawRunes = []string{"é", "日", "😀", "ß", "λ", "€"}
var escRunes = []rune{0x41, 0xe9, 0x20ac, 0x65e5, 0x7a, 0x3bb, 0x01}
var escRunes8 = []rune{0x1F600, 0x41, 0x10FFFF, 0xe9}

// textPieces generates the inside of a string or |symbol|.
func (b *builder) textPieces(pipe bool) []piece {
	n := b.r.IntN(7)
	if pipe && n == 0 {
		n = 1
	}
	var ps []piece
	for i := 0; i < n; i++ {
		switch p := b.r.IntN(100); {
		case p < 45:
			w := fwPick(b.r, words)
			if pipe && b.r.IntN(2) == 0 {
				w = strings.ToUpper(w[:1]) + w[1:]
			}
			ps = append(ps, piece{lit: w, val: w})
		case p < 55:
			ps = append(ps, piece{lit: " ", val: " "})
		case p < 63:
			c := fwPick(b.r, []string{";", "(", ")", "'", "#", ",", "`", "@", ".", "1", "#|"})
			if !pipe && b.r.IntN(3) == 0 {
				c = "|"
			}
			if pipe && b.r.IntN(3) == 0 {
				c = "\"" // a bare double quote inside |…|
			}
			if pipe && strings.Contains(c, "|") {
				c = "#"
			}
			ps = append(ps, piece{lit: c, val: c})
		case p < 75:
			e := fwPick(b.r, simpleEsc)
			if pipe && e.lit == `\b` {
				e = simpleEsc[0]
			}
			ps = append(ps, e)
			b.feat("escape:simple")
		case p < 82:
			rn := fwPick(b.r, escRunes)
			h := fmt.Sprintf("%04x", rn)
			if b.r.IntN(2) == 0 {
				h = strings.ToUpper(h)
			}
			ps = append(ps, piece{lit: `\u` + h, val: string(rn), esc: true})
			b.feat("escape:u4")
		case p < 87:
			rn := fwPick(b.r, escRunes8)
			h := fmt.Sprintf("%08x", rn)
			if b.r.IntN(2) == 0 {
				h = strings.ToUpper(h)
			}
			ps = append(ps, piece{lit: `\U` + h, val: string(rn), esc: true})
			b.feat("escape:u8")
		case p < 95:
			c := fwPick(b.r, rawRunes)
			ps = append(ps, piece{lit: c, val: c})
			b.feat("raw-utf8")
		default:
			ps = append(ps, piece{lit: "\n", val: "\n"})
		}
	}
	return ps
}

func (b *builder) quoted(kind string, delim byte) (val string) {
	ps := b.textPieces(kind == "pipe")
	var lit, v strings.Builder
	lit.WriteByte(delim)
	var xs []int
	start := len(b.buf)
	for _, p := range ps {
		if p.esc {
			o := start + lit.Len()
			for k := 1; k < len(p.lit); k++ {
				xs = append(xs, o+k)
			}
		}
		lit.WriteString(p.lit)
		v.WriteString(p.val)
	}
	lit.WriteByte(delim)
	s := b.emit(kind, lit.String())
	s.X = xs
	if kind == "pipe" {
		s.W = "s:" + strconv.Quote(v.String())
	} else {
		s.W = strconv.Quote(v.String())
	}
	return v.String()
}

func (b *builder) stringLeaf() string {
	b.feat("string")
	return strconv.Quote(b.quoted("str", '"'))
}

func (b *builder) pipeLeaf() string {
	for {
		// a |symbol| whose name is t or nil is left out (T/NIL identity is not this check's concern)
		mark := len(b.buf)
		nseg := len(b.segs)
		v := b.quoted("pipe", '|')
		if strings.EqualFold(v, "t") || strings.EqualFold(v, "nil") {
			b.buf = b.buf[:mark]
			b.segs = b.segs[:nseg]
			continue
		}
		b.feat("pipe-symbol")
		return "s:" + strconv.Quote(v)
	}
}

const charSingles = "#*+-./0123456789:<=>@ABCDEFGHIJKLMNOPQRSTVWXYZ^_abcdefghijklmnopqrstvwxyz|~,"

var charNames = []struct {
	n string
	r rune
}{{"Space", ' '}, {"Newline", '\n'}, {"Tab", '\t'}, {"Return", '\r'}, {"Backspace", '\b'}, {"Page", '\f'}, {"Rubout", 0x7f}}

func (b *builder) charLeaf() string {
	var txt string
	var rn rune
	switch p := b.r.IntN(100); {
	case p < 40:
		c := charSingles[b.r.IntN(len(charSingles))]
		txt, rn = string(c), rune(c)
		b.feat("char:single")
	case p < 65:
		cn := fwPick(b.r, charNames)
		txt, rn = cn.n, cn.r
		switch b.r.IntN(3) {
		case 0:
			txt = strings.ToLower(txt)
		case 1:
			txt = strings.ToUpper(txt)
		}
		b.feat("char:name")
	case p < 82:
		rn = fwPick(b.r, []rune{0x41, 0xe9, 0x20ac, 0x65e5, 0x1F600, 0x3bb})
		txt = fmt.Sprintf("%c%x", fwPick(b.r, []rune{'u', 'U'}), rn)
		if len(txt) < 3 || b.r.IntN(2) == 0 {
			txt = fmt.Sprintf("%c%04X", fwPick(b.r, []rune{'u', 'U'}), rn)
		}
		b.feat("char:hex")
	default:
		txt = fwPick(b.r, rawRunes)
		rn, _ = utf8.DecodeRuneInString(txt)
		b.feat("char:utf8")
	}
	cs := b.emit("char", `#\`+txt)
	cs.W = fmt.Sprintf("c:U+%04X", rn)
	return cs.W
}

func (b *builder) rintLeaf() string {
	var radix int
	var head string
	switch b.r.IntN(5) {
	case 0:
		radix, head = 2, fwPick(b.r, []string{"#b", "#B"})
	case 1:
		radix, head = 8, fwPick(b.r, []string{"#o", "#O"})
	case 2:
		radix, head = 16, fwPick(b.r, []string{"#x", "#X"})
	default:
		radix = 2 + b.r.IntN(35)
		head = "#" + strconv.Itoa(radix) + fwPick(b.r, []string{"r", "R"})
	}
	sg := b.sign(15)
	ds := b.digits(radix, b.intLen())
	x, _ := parseBig(ds, radix)
	if sg == "-" {
		x.Neg(x)
	}
	want := showInt(x)
	if b.r.IntN(100) < 18 {
		// a ratio after a radix prefix: #x1/f
		den := b.digits(radix, 1+b.r.IntN(4))
		if d, _ := parseBig(den, radix); d.Sign() != 0 {
			ds += "/" + den
			q := new(big.Rat).SetFrac(x, d)
			if q.IsInt() {
				want = showInt(q.Num())
			} else {
				want = "r:" + q.Num().String() + "/" + q.Denom().String()
			}
			b.feat("radix-ratio")
		}
	}
	s := b.emit("rint", head+sg+ds)
	s.R = len(head) - 1
	s.W = want
	b.feat("radix-integer")
	return want
}

func (b *builder) bitsLeaf() string {
	n := b.r.IntN(10)
	bs := make([]byte, n)
	for i := range bs {
		bs[i] = byte('0' + b.r.IntN(2))
	}
	bsg := b.emit("bits", "#*"+string(bs))
	bsg.W = "#*" + string(bs)
	b.feat("bit-vector")
	return "#*" + string(bs)
}

// items emits n items separated by gaps inside an open delimiter.
func (b *builder) items(n int, max int) []string {
	var ws []string
	for i := 0; i < n; i++ {
		w := b.item(max)
		ws = append(ws, w)
	}
	return ws
}

// item emits gap + one form inside a list.
func (b *builder) item(maxDepth int) string {
	k := b.pickKind(maxDepth)
	if 0 < b.bq && b.r.IntN(100) < 40 {
		k = fwPick(b.r, []string{"comma", "commaat"})
	}
	b.gap(k == "list")
	return b.formOf(k, maxDepth)
}

func (b *builder) open(kind, txt string) {
	b.emit(kind, txt)
	b.depth++
	b.pend = 0
}

func (b *builder) close(savedPend int) {
	if b.last != "ws" && b.r.IntN(6) == 0 {
		b.ws()
	}
	_ = savedPend
	b.pend = 0
	b.emit("close", ")")
	b.depth--
}

func join(ws []string) string { return strings.Join(ws, " ") }

func (b *builder) listForm(maxDepth int) string {
	save := b.pend
	b.open("open", "(")
	n := b.r.IntN(5)
	if b.r.IntN(8) == 0 {
		n = 0
	}
	ws := b.items(n, maxDepth-1)
	want := "(" + join(ws) + ")"
	if n == 0 {
		want = "nil"
	}
	forceDot := b.dot
	b.dot = false
	if forceDot && n == 0 {
		ws = b.items(1, maxDepth-1)
		n = 1
		want = "(" + join(ws) + ")"
	}
	if 0 < n && (forceDot || b.r.IntN(100) < 14) {
		// dotted pair
		b.gapMust()
		b.emit("dot", ".")
		b.gapMust()
		var tail string
		if b.r.IntN(100) < 12 {
			b.tokenSeg(fwPick(b.r, []string{"nil", "NIL"}))
			b.feat("dotted-nil")
			tail = "" // (a . nil) is (a)
			want = "(" + join(ws) + ")"
		} else {
			for {
				txt := b.atomText()
				w, kind, ok := classify(txt, b.base, b.ff)
				if !ok || kind == "nil" || avoidedKind(kind) {
					continue
				}
				b.tokenSeg(txt)
				tail = w
				break
			}
			want = "(" + join(ws) + " . " + tail + ")"
		}
		b.feat("dotted-pair")
	}
	if n == 0 {
		b.feat("empty-list")
	}
	b.pend = 0
	b.close(save)
	b.feat("list")
	return want
}

func (b *builder) gapMust() {
	if b.last != "ws" {
		b.ws()
	}
	if b.r.IntN(100) < 8 {
		b.comment()
		b.ws()
	}
}

func (b *builder) vectorForm(maxDepth int) string {
	b.open("vopen", "#(")
	ws := b.items(b.r.IntN(5), maxDepth-1)
	b.close(0)
	b.feat("vector")
	return "#(" + join(ws) + ")"
}

func (b *builder) simpleAtom() string {
	for {
		var txt string
		if b.r.IntN(2) == 0 {
			txt = b.symbolText()
		} else {
			txt = b.sign(10) + b.digits(b.base, 1+b.r.IntN(3))
		}
		w, kind, ok := classify(txt, b.base, b.ff)
		if !ok || avoidedKind(kind) {
			continue
		}
		b.tokenSeg(txt)
		return w
	}
}

func (b *builder) arrayForm() string {
	rank := 1 + b.r.IntN(3)
	dims := make([]int, rank)
	for i := range dims {
		dims[i] = 1 + b.r.IntN(3)
	}
	head := "#" + strconv.Itoa(rank) + fwPick(b.r, []string{"A", "a"})
	b.feat(fmt.Sprintf("array:rank%d", rank))
	var rec func(level int, first bool) string
	rec = func(level int, first bool) string {
		if level == rank {
			b.gap(false)
			return b.simpleAtom()
		}
		if first {
			s := b.emit("aopen", head+"(")
			s.R = len(head) - 1
			b.depth++
			b.pend = 0
		} else {
			b.gap(true)
			b.open("open", "(")
		}
		var ws []string
		for i := 0; i < dims[level]; i++ {
			ws = append(ws, rec(level+1, false))
		}
		b.close(0)
		return "(" + join(ws) + ")"
	}
	body := rec(0, true)
	if rank == 1 {
		return "#" + body // #1A(..) is a vector
	}
	return fmt.Sprintf("#%dA%v%s", rank, dims, body)
}

func (b *builder) complexForm() string {
	head := fwPick(b.r, []string{"#C(", "#c("})
	b.emit("copen", head)
	b.depth++
	b.pend = 0
	re, im := b.r.IntN(20)-10, b.r.IntN(20)-10
	b.gap(false)
	b.tokenSeg(strconv.Itoa(re))
	b.gapMust()
	b.tokenSeg(strconv.Itoa(im))
	b.close(0)
	b.feat("complex")
	return fmt.Sprintf("#C(%v %v)", float64(re), float64(im))
}

var prefixes = []struct{ txt, name string }{
	{"'", "quote"}, {"'", "quote"}, {"#'", "function"}, {"`", "backquote"}, {",", "comma"}, {",@", "commaat"},
}

func (b *builder) prefixForm(maxDepth int, forced string) string {
	var p struct{ txt, name string }
	for {
		p = fwPick(b.r, prefixes)
		if forced != "" && p.name != forced {
			continue
		}
		if (p.name == "comma" || p.name == "commaat") && b.bq == 0 {
			continue
		}
		break
	}
	b.emit("prefix", p.txt)
	b.pend++
	b.feat("prefix:" + p.name)
	if p.name == "backquote" {
		b.bq++
		defer func() { b.bq-- }()
	}
	if b.r.IntN(100) < 6 {
		b.ws()
		b.feat("prefix-then-space")
	}
	var target string
	pick := b.r.IntN(100)
	switch {
	case pick < 30 && !(p.name == "backquote" && forced != ""):
		// any leaf or a nested prefix: the prefix applies to whatever object follows
		switch q := b.r.IntN(100); {
		case q < 40:
			for {
				txt := b.atomText()
				_, kind, ok := classify(txt, b.base, b.ff)
				if !ok || avoidedKind(kind) || txt[0] == '@' && (p.name == "comma" || p.name == "commaat") {
					continue
				}
				target, _, _ = b.tokenSeg(txt)
				break
			}
		case q < 52:
			target = b.stringLeaf()
		case q < 62:
			target = b.charLeaf()
		case q < 70:
			target = b.pipeLeaf()
		case q < 78:
			target = b.rintLeaf()
		case q < 84:
			target = b.bitsLeaf()
		case q < 92 && 1 < maxDepth:
			target = b.vectorForm(1)
		default:
			target = b.prefixForm(1, "quote")
		}
		b.feat("prefix-target:any-object")
	case maxDepth <= 1 || pick < 70 && !(p.name == "backquote" && forced != ""):
		// symbol target (must denote a symbol under the current *read-base*)
		for {
			txt := b.symbolText()
			w, kind, ok := classify(txt, b.base, b.ff)
			if !ok || kind != "symbol" {
				continue
			}
			b.tokenSeg(txt)
			target = w
			break
		}
	default:
		if p.name == "function" {
			// #'(lambda (x) x)
			save := b.pend
			b.open("open", "(")
			w1, _, _ := b.tokenSeg("lambda")
			b.ws()
			b.open("open", "(")
			w2 := b.simpleSymbol("v")
			b.close(0)
			b.ws()
			w3 := b.simpleSymbol("v")
			b.close(save)
			target = "(" + w1 + " (" + w2 + ") " + w3 + ")"
		} else {
			target = b.listForm(maxDepth)
		}
	}
	b.pend = 0
	return "{" + p.name + " " + target + "}"
}

// literalLeaf emits a bare token or a |symbol| given as text.
func (b *builder) literalLeaf(txt string) string {
	for _, pre := range []struct{ txt, name string }{{"#'", "function"}, {"'", "quote"}, {"`", "backquote"}} {
		if strings.HasPrefix(txt, pre.txt) && len(pre.txt) < len(txt) {
			b.emit("prefix", pre.txt)
			b.pend++
			b.feat("prefix:" + pre.name)
			w := b.literalLeaf(txt[len(pre.txt):])
			b.pend = 0
			return "{" + pre.name + " " + w + "}"
		}
	}
	if strings.HasPrefix(txt, `#\u`) && 3 < len(txt) {
		// #\uXXXX
		n, _ := strconv.ParseUint(txt[3:], 16, 32)
		s := b.emit("char", txt)
		s.W = fmt.Sprintf("c:U+%04X", n)
		b.feat("char:hex")
		return s.W
	}
	if 2 < len(txt) && txt[0] == '#' && strings.IndexByte("bBoOxX", txt[1]) >= 0 {
		// #b101 or #x1/f
		radix := map[byte]int{'b': 2, 'o': 8, 'x': 16}[txt[1]|0x20]
		num, den := txt[2:], "1"
		if i := strings.IndexByte(num, '/'); 0 < i {
			num, den = num[:i], num[i+1:]
		}
		x, _ := parseBig(num, radix)
		d, _ := parseBig(den, radix)
		s := b.emit("rint", txt)
		s.R = 1
		if q := new(big.Rat).SetFrac(x, d); q.IsInt() {
			s.W = showInt(q.Num())
		} else {
			s.W = "r:" + q.Num().String() + "/" + q.Denom().String()
		}
		b.feat("radix-integer")
		return s.W
	}
	if 2 <= len(txt) && (txt[0] == '|' || txt[0] == '"') && txt[len(txt)-1] == txt[0] {
		// |symbol| or "string"; the escapes \n and \t are understood
		var val []byte
		var xs []int
		start := len(b.buf)
		for i := 1; i < len(txt)-1; i++ {
			if txt[i] == '\\' && i+2 < len(txt) {
				xs = append(xs, start+i+1)
				i++
				val = append(val, map[byte]byte{'n': '\n', 't': '\t'}[txt[i]])
				continue
			}
			val = append(val, txt[i])
		}
		kind := "pipe"
		w := "s:" + strconv.Quote(string(val))
		if txt[0] == '"' {
			kind, w = "str", strconv.Quote(string(val))
		}
		s := b.emit(kind, txt)
		s.X, s.W = xs, w
		b.feat(map[string]string{"pipe": "pipe-symbol", "str": "string"}[kind])
		return w
	}
	w, _, ok := b.tokenSeg(txt)
	if !ok {
		b.pin = false
	}
	return w
}

// literalList emits ( e1 e2 … ) of literal leaves.
func (b *builder) literalList(elems []string) string {
	b.open("open", "(")
	var ws []string
	for i, e := range elems {
		if 0 < i {
			b.ws()
		}
		ws = append(ws, b.literalLeaf(e))
	}
	b.pend = 0
	b.close(0)
	b.feat("list")
	return "(" + join(ws) + ")"
}

// simpleSymbol emits a token that is a symbol under every *read-base*.
func (b *builder) simpleSymbol(prefix string) string {
	txt := prefix + "-" + fwPick(b.r, []string{"x", "y", "k"})
	w, _, _ := b.tokenSeg(txt)
	return w
}

func (b *builder) pickKind(maxDepth int) string {
	b.nodes++
	p := b.r.IntN(100)
	if maxDepth <= 0 || 40 < b.nodes {
		p = p * 70 / 100
	}
	switch {
	case p < 38:
		return "token"
	case p < 47:
		return "string"
	case p < 52:
		return "pipe"
	case p < 58:
		return "char"
	case p < 63:
		return "rint"
	case p < 66:
		return "bits"
	case p < 70:
		return "prefix1"
	case p < 83:
		return "list"
	case p < 87:
		return "vector"
	case p < 90:
		return "array"
	case p < 91:
		return "complex"
	default:
		return "prefix"
	}
}

func (b *builder) formOf(kind string, maxDepth int) string {
	switch kind {
	case "token":
		return b.token()
	case "string":
		return b.stringLeaf()
	case "pipe":
		return b.pipeLeaf()
	case "char":
		return b.charLeaf()
	case "rint":
		return b.rintLeaf()
	case "bits":
		return b.bitsLeaf()
	case "list":
		return b.listForm(maxDepth)
	case "vector":
		return b.vectorForm(maxDepth)
	case "array":
		return b.arrayForm()
	case "complex":
		if b.base != 10 {
			return b.listForm(maxDepth)
		}
		return b.complexForm()
	case "barred-dot-list":
		// (a |.| b): the barred symbol sits where the dot of a dotted pair would
		b.used = true
		return b.literalList([]string{"a", "|.|", fwPick(b.r, []string{"b", "nil", "12"})})
	case "prefix1":
		return b.prefixForm(1, "")
	case "quote", "function", "backquote", "comma", "commaat":
		return b.prefixForm(max(maxDepth, 2), kind)
	}
	return b.prefixForm(maxDepth, "")
}

// build renders a whole text of nForms top-level forms.
func build(r *rand.Rand, base int, ff, dirty string, nForms, maxDepth int, force []string) Case {
	b := &builder{r: r, base: base, ff: ff, dirty: dirty, feats: map[string]bool{}, form: -1, force: force, cpct: 12}
	switch v := r.IntN(100); {
	case v < 10:
		b.cpct = 70 // comments at most gaps: ; and #| |# next to every kind of token
		b.feat("comment-heavy")
	case v < 18:
		b.crlf = true
		b.feat("crlf")
	}
	if 0 < len(force) {
		nForms = len(force)
	}
	// the form that has to show the avoided construct of a dirty case
	dirtyAt := r.IntN(nForms)
	if r.IntN(100) < 25 {
		b.ws()
		if r.IntN(3) == 0 {
			b.comment()
		}
	}
	for i := 0; i < nForms; i++ {
		kind := b.pickKind(maxDepth)
		if i < len(force) && force[i] != "" {
			kind = force[i]
			if kind == "dotted" {
				kind = "list"
				b.dot = true
			}
		}
		if i == dirtyAt && !b.used {
			switch dirty {
			case "float-leading-point", "integer-point-nondecimal-base":
				kind = "token"
			}
		}
		if 0 < i {
			b.form = -1
			b.gap(kind == "list" || strings.HasPrefix(kind, "=("))
		}
		b.form = i
		b.pin = true
		start := len(b.buf)
		first := len(b.segs)
		b.nodes = 0
		var want string
		switch {
		case strings.HasPrefix(kind, "=("):
			want = b.literalList(strings.Fields(kind[2 : len(kind)-1]))
		case strings.HasPrefix(kind, "="):
			want = b.literalLeaf(kind[1:])
		default:
			want = b.formOf(kind, maxDepth)
		}
		if !b.pin {
			want = ""
		}
		b.forms = append(b.forms, Form{S: start, E: len(b.buf), Want: want, Kind: b.last, Head: b.segs[first].K})
	}
	b.form = -1
	b.depth, b.pend = 0, 0
	if r.IntN(100) < 35 {
		b.ws()
		if r.IntN(4) == 0 {
			b.comment()
		}
	}
	c := Case{Text: string(b.buf), Base: base, FF: ff, Segs: b.segs, Forms: b.forms}
	if dirty != "" && b.used {
		c.Dirty = dirty
	}
	if 0 < len(force) && c.Dirty == "" {
		// literal probe texts: name the avoided construct they hold, if any
		for i := range b.segs {
			g := &b.segs[i]
			if g.K == "tok" && avoidedKind(g.C) {
				c.Dirty = g.C
				break
			}
		}
	}
	for f := range b.feats {
		c.Feats = append(c.Feats, f)
	}
	sortStrings(c.Feats)
	return c
}

// buildDeep renders one form nested depth levels deep (lists, vectors, quoted and
// backquoted lists) with atoms on the way down and on the way up.
func buildDeep(r *rand.Rand, base int, ff string, depth int) Case {
	b := &builder{r: r, base: base, ff: ff, feats: map[string]bool{}, form: 0, pin: true}
	type level struct {
		kind string
		pre  []string
		post []string
	}
	levels := make([]level, depth)
	if r.IntN(2) == 0 {
		b.form = -1
		b.ws()
		b.form = 0
	}
	start := len(b.buf)
	first := len(b.segs)
	for d := 0; d < depth; d++ {
		lv := &levels[d]
		switch q := r.IntN(100); {
		case q < 8 && 0 < d:
			lv.kind = "vector"
			b.open("vopen", "#(")
		case q < 13:
			lv.kind = "quote"
			b.emit("prefix", "'")
			b.pend++
			b.open("open", "(")
		case q < 16:
			lv.kind = "backquote"
			b.emit("prefix", "`")
			b.pend++
			b.open("open", "(")
		default:
			lv.kind = "list"
			b.open("open", "(")
		}
		if r.IntN(100) < 30 {
			lv.pre = append(lv.pre, b.simpleAtom())
			b.ws()
		} else if r.IntN(100) < 10 {
			b.ws()
		}
	}
	want := b.simpleAtom()
	for d := depth - 1; 0 <= d; d-- {
		lv := &levels[d]
		if r.IntN(100) < 12 {
			b.ws()
			lv.post = append(lv.post, b.simpleAtom())
		}
		b.pend = 0
		b.emit("close", ")")
		b.depth--
		elems := append(append(append([]string{}, lv.pre...), want), lv.post...)
		want = "(" + join(elems) + ")"
		switch lv.kind {
		case "vector":
			want = "#" + want
		case "quote":
			want = "{quote " + want + "}"
		case "backquote":
			want = "{backquote " + want + "}"
		}
	}
	b.forms = append(b.forms, Form{S: start, E: len(b.buf), Want: want, Kind: "close", Head: b.segs[first].K})
	b.form = -1
	b.depth, b.pend = 0, 0
	if r.IntN(2) == 0 {
		b.ws()
	}
	b.feat(fmt.Sprintf("nesting-depth>=%d", depth/100*100))
	c := Case{Text: string(b.buf), Base: base, FF: ff, Segs: b.segs, Forms: b.forms, Long: true}
	for f := range b.feats {
		c.Feats = append(c.Feats, f)
	}
	sortStrings(c.Feats)
	return c
}
