// Package c02 monitors that reading is a function of the source text and not
// of how the text is delivered: string vs one form at a time vs a stream cut
// into arbitrary pieces; positions after each form; truncated texts.
package c02

import (
	"bytes"
	"fmt"
	"io"
	"math/big"
	"math/rand/v2"
	"sort"
	"strconv"
	"strings"
	"unicode/utf8"

	"github.com/ohler55/slip"

	"verif/internal/fw"
	"verif/internal/sl"
)

func parseBig(s string, base int) (*big.Int, bool) { return new(big.Int).SetString(s, base) }
func sortStrings(s []string)                       { sort.Strings(s) }

// ---------------------------------------------------------------------
// case list

// literalProbes are hand-made texts for root causes that random texts meet only rarely; they are
// part of the seed-independent block so that their signatures exist at every seed.
type literalProbe struct {
	base  int
	forms []string // "=tok" literal leaf, "=(a b c)" literal list
	dirty string
}

var literalProbes = makeLiteralProbes()

func makeLiteralProbes() (ps []literalProbe) {
	// decimal digits that are not digits of *read-base* (bases 2..9): alone, signed, mixed with in-base digits
	for base := 2; base <= 9; base++ {
		d := string(rune('0' + base))
		ps = append(ps, literalProbe{base: base,
			forms: []string{"=" + d, "=-" + d, "=(1" + d + " +" + d + "0 9)", "=10"}})
	}
	// letters around the edge of bases 11..35: last digit letter, first non-digit letter, float markers
	for base := 11; base <= 35; base++ {
		in := string(rune('a' + base - 11))
		out := string(rune('a' + base - 10))
		ps = append(ps, literalProbe{base: base,
			forms: []string{"=1" + in, "=1" + out, "=(" + in + "0 " + out + "0 -" + in + " 1e2 1d2 1f2 1s2 1l2 1.5e2)", "=" + in + "/" + in + "1"}})
	}
	// barred punctuation symbols in every position of lists of 1..4 elements
	for _, sym := range []string{".", "'", ",", "(", ")", ";", "`", "#", "\""} {
		for n := 1; n <= 4; n++ {
			for pos := 0; pos < n; pos++ {
				elems := append([]string{}, []string{"a", "b", "c", "d"}[:n]...)
				elems[pos] = "|" + sym + "|"
				p := literalProbe{base: 10, forms: []string{"=(" + join(elems) + ")", "=|" + sym + "|"}}
				ps = append(ps, p)
			}
		}
	}
	// quote-like prefixes before every kind of object, at top level and inside a list
	for _, pre := range []string{"'", "#'", "`"} {
		for _, obj := range []string{"nil", "t", "12", "-3/4", "1.5", ":k", "|aB|", "''x"} {
			ps = append(ps, literalProbe{base: 10, forms: []string{"=" + pre + obj, "=(a " + pre + obj + " b)"}})
		}
	}
	// leaves whose proper prefixes are not readable on their own (what cl:read on a
	// non-seekable stream meets): #\u0041 passes through #\u0, #b101/0111 through #b101/0
	for _, leaf := range []string{`#\u0041`, `#\u00e9`, "#b101/0111", "#x1/0f", "#o17", `|a\tb|`, `"a\nb"`} {
		ps = append(ps, literalProbe{base: 10, forms: []string{"=" + leaf, "=(k " + leaf + ")"}})
	}
	return
}

const pairProbes = 14 * 14
const deepProbes = 3

// bigProbes: one token longer than the 64 KiB read block, of every kind and in every wrapping
var bigProbes = []Big{
	{Kind: "str", Len: 70000, Wrap: 0, Pad: 0}, {Kind: "str", Len: 66000, Wrap: 1, Pad: 3}, {Kind: "str", Len: 140000, Wrap: 3, Pad: 1},
	{Kind: "sym", Len: 70000, Wrap: 0, Pad: 1}, {Kind: "sym", Len: 66000, Wrap: 2, Pad: 0}, {Kind: "sym", Len: 67000, Wrap: 1, Pad: 5},
	{Kind: "pipe", Len: 70000, Wrap: 1, Pad: 2}, {Kind: "pipe", Len: 66500, Wrap: 2, Pad: 4},
	{Kind: "int", Len: 66000, Wrap: 0, Pad: 0}, {Kind: "int", Len: 70000, Wrap: 1, Pad: 6},
	{Kind: "bits", Len: 70000, Wrap: 3, Pad: 2}, {Kind: "bits", Len: 66000, Wrap: 0, Pad: 7},
}

var probeN = pairProbes + len(literalProbes) + deepProbes + len(bigProbes) + 300 // seed-independent block at the start of every case list

var probeKinds = []string{"token", "string", "pipe", "char", "rint", "bits", "list", "dotted", "vector", "array", "complex", "quote", "function", "backquote"}

func nCases(tier string) int {
	if tier == "thorough" {
		return probeN + 20000
	}
	return probeN + 700
}

func gen(r *rand.Rand, i int, tier string) Case {
	if i < probeN {
		// the same texts whatever VERIF_SEED is: the set of signatures the
		// unchanged tree produces must not depend on the seed
		r = rand.New(rand.NewPCG(0xC02C02, uint64(i)*2654435761+17))
	}
	base := 10
	if r.IntN(2) == 0 {
		base = fwPick(r, bases)
	}
	ff := fwPick(r, floatFormats)
	dirty := "" // the avoid set is empty
	long := dirty == "" && r.IntN(100) < 4
	var force []string
	if i < len(probeKinds)*len(probeKinds) {
		// every ordered pair of form kinds, so that every "after X, then Y" situation exists at every seed
		force = []string{probeKinds[i/len(probeKinds)], probeKinds[i%len(probeKinds)]}
		dirty, long = "", false
		if i%3 == 2 {
			force = append(force, "token")
		}
	}
	if pairProbes <= i && i < pairProbes+len(literalProbes) {
		lp := literalProbes[i-pairProbes]
		c := build(r, lp.base, ff, "", 0, 3, lp.forms)
		c.Dirty = lp.dirty
		return c
	}
	if j := i - pairProbes - len(literalProbes); 0 <= j && j < deepProbes {
		return buildDeep(r, base, ff, []int{200, 260, 330}[j])
	}
	if j := i - pairProbes - len(literalProbes) - deepProbes; 0 <= j && j < len(bigProbes) {
		bp := bigProbes[j]
		return Case{Base: 10, FF: ff, Big: &bp}
	}
	if probeN <= i {
		switch v := r.IntN(1000); {
		case v < 6:
			return buildDeep(r, base, ff, 200+r.IntN(150))
		case v < 10:
			return Case{Base: 10, FF: ff, Big: &Big{Kind: fwPick(r, []string{"str", "sym", "pipe", "int", "bits"}),
				Len: 65000 + r.IntN(9000) + 66000*r.IntN(2), Wrap: r.IntN(4), Pad: r.IntN(40)}}
		}
	}
	var c Case
	for try := 0; try < 40; try++ {
		nf, lim := 1+r.IntN(5), 120
		if long {
			nf, lim = 8+r.IntN(8), 420
		}
		c = build(r, base, ff, dirty, nf, 3, force)
		if 2 <= len(c.Text) && len(c.Text) <= lim {
			break
		}
	}
	c.Long = long
	return c
}

// ---------------------------------------------------------------------
// observation of the real reader

type outcome struct {
	vals   []string // exact renderings
	approx []string // renderings comparable with the generator's expectation
	err    *sl.Err
	pos    int
}

func (o outcome) class() string {
	switch {
	case o.err == nil:
		return "value"
	case o.err.Internal:
		return "internal"
	case o.err.Partial:
		return "partial"
	case o.err.IsA("parse-error"):
		return "parse-error"
	}
	return "error:" + o.err.Class
}

func (o outcome) String() string {
	if o.err != nil {
		return "<" + o.err.String() + ">"
	}
	return "[" + strings.Join(o.vals, " | ") + "]"
}

// same: two deliveries agree when both give the same objects in the same
// order, or both report the text as incomplete/erroneous.
func same(a, b outcome) bool {
	if (a.err == nil) != (b.err == nil) {
		return false
	}
	if a.err != nil {
		return a.err.Internal == b.err.Internal
	}
	if len(a.vals) != len(b.vals) {
		return false
	}
	for i := range a.vals {
		if a.vals[i] != b.vals[i] {
			return false
		}
	}
	return true
}

func gotKind(o outcome) string {
	switch {
	case o.err == nil:
		return "objects"
	case o.err.Internal:
		return "internal"
	}
	return "error"
}

func newScope(base int, ff string) *slip.Scope {
	s := slip.NewScope()
	s.Let(slip.Symbol("*read-base*"), slip.Fixnum(base))
	s.Let(slip.Symbol("*read-default-float-format*"), slip.Symbol(ff))
	return s
}

func render(code []slip.Object) (vals, approx []string) {
	vals = make([]string, len(code))
	approx = make([]string, len(code))
	for i, o := range code {
		vals[i] = show(o, true)
		approx[i] = show(o, false)
	}
	return
}

func rdString(scope *slip.Scope, txt string) (o outcome) {
	o.err = sl.Catch(func() {
		code := slip.ReadString(txt, scope)
		o.vals, o.approx = render(code)
	})
	return
}

func rdBytes(scope *slip.Scope, txt string) (o outcome) {
	o.err = sl.Catch(func() {
		code := slip.Read([]byte(txt), scope)
		o.vals, o.approx = render(code)
	})
	return
}

func rdOne(scope *slip.Scope, txt string) (o outcome) {
	o.err = sl.Catch(func() {
		code, pos := slip.ReadOne([]byte(txt), scope)
		o.vals, o.approx = render(code)
		o.pos = pos
	})
	return
}

// pieces is an io.Reader that hands over data cut at the given offsets.
type pieces struct {
	data    []byte
	cuts    []int // ascending offsets, each 0 < c < len(data)
	pos     int
	ci      int
	eofLast bool // return io.EOF together with the last piece
	zero    bool // precede every piece with a (0, nil) read
	zflip   bool
	reads   int
}

func (p *pieces) Read(b []byte) (int, error) {
	p.reads++
	if len(p.data) <= p.pos {
		return 0, io.EOF
	}
	if p.zero {
		p.zflip = !p.zflip
		if p.zflip {
			return 0, nil
		}
	}
	for p.ci < len(p.cuts) && p.cuts[p.ci] <= p.pos {
		p.ci++
	}
	end := len(p.data)
	if p.ci < len(p.cuts) {
		end = p.cuts[p.ci]
	}
	n := copy(b, p.data[p.pos:end])
	p.pos += n
	if p.pos == len(p.data) && p.eofLast {
		return n, io.EOF
	}
	return n, nil
}

const (
	mEOFLast = 1
	mZero    = 2
)

func newPieces(txt string, cuts []int, mode int) *pieces {
	return &pieces{data: []byte(txt), cuts: cuts, eofLast: mode&mEOFLast != 0, zero: mode&mZero != 0}
}

func rdStream(scope *slip.Scope, r io.Reader) (o outcome) {
	o.err = sl.Catch(func() {
		code, pos := slip.ReadStream(r, scope)
		o.vals, o.approx = render(code)
		o.pos = pos
	})
	if o.err != nil && o.err.Internal && internalHook != nil {
		internalHook(o)
	}
	return
}

// internalHook reports a Go runtime fault inside the stream reader; it is set per case.
var internalHook func(o outcome)

func rdStreamOne(scope *slip.Scope, r io.Reader) (o outcome) {
	o.err = sl.Catch(func() {
		code, pos := slip.ReadStream(r, scope, true)
		o.vals, o.approx = render(code)
		o.pos = pos
	})
	return
}

func rdPush(scope *slip.Scope, r io.Reader, max int) (o outcome) {
	// the channel is drained while the reader runs, so a reader that pushes more
	// objects than the text holds cannot block the worker
	ch := make(chan slip.Object, 64)
	done := make(chan *sl.Err, 1)
	go func() {
		err := sl.Catch(func() {
			slip.ReadStreamPush(r, scope, ch)
		})
		close(ch)
		done <- err
	}()
	var code []slip.Object
	for obj := range ch {
		if len(code) < 4*max+64 {
			code = append(code, obj)
		}
	}
	o.err = <-done
	if o.err == nil {
		o.vals, o.approx = render(code)
	}
	return
}

type collector struct{ got []slip.Object }

func (c *collector) Call(s *slip.Scope, args slip.List, depth int) slip.Object {
	c.got = append(c.got, args...)
	return nil
}

func rdEach(scope *slip.Scope, r io.Reader) (o outcome) {
	var col collector
	o.err = sl.Catch(func() {
		slip.ReadStreamEach(r, scope, &col)
	})
	if o.err == nil {
		o.vals, o.approx = render(col.got)
	}
	return
}

func callFn(scope *slip.Scope, name string, args slip.List) (res slip.Object, err *sl.Err) {
	err = sl.Catch(func() {
		fi := slip.MustFindFunc(name)
		f := fi.Create(nil)
		res = f.(slip.Funky).Caller().Call(scope, args, 0)
	})
	return
}

// ---------------------------------------------------------------------
// what the harness knows about a cut position from its own token AST

type cutInfo struct {
	state    string
	seg      *Seg // segment the cut is strictly inside, or the segment that starts at the cut
	boundary bool
}

func insideState(g *Seg, k int) string {
	off := k - g.S
	switch g.K {
	case "str", "pipe":
		for _, x := range g.X {
			if x == k {
				return "in-" + g.K + "-esc"
			}
		}
		return "in-" + g.K
	case "char":
		switch off {
		case 1:
			return "in-sharp"
		case 2:
			return "in-char-start"
		}
		return "in-char"
	case "rint":
		switch {
		case off == 1:
			return "in-sharp"
		case off <= g.R:
			return "in-sharp-num"
		case off == g.R+1:
			return "in-rint-start"
		}
		return "in-rint"
	case "bits":
		if off == 1 {
			return "in-sharp"
		}
		return "in-bits"
	case "vopen":
		return "in-sharp"
	case "aopen":
		switch {
		case off == 1:
			return "in-sharp"
		case off <= g.R:
			return "in-sharp-num"
		}
		return "in-array-open"
	case "copen":
		if off == 1 {
			return "in-sharp"
		}
		return "in-array-open"
	case "prefix":
		if g.E-g.S == 2 && off == 1 {
			if g.K == "prefix" && k-1 >= 0 {
				// #' or ,@
				return "in-prefix2"
			}
		}
		return "in-prefix"
	case "bcom":
		switch {
		case off == 1:
			return "in-sharp"
		case k == g.E-1:
			return "in-bcom-end"
		}
		return "in-bcom"
	case "tok":
		if g.T != "" {
			if g.T == "nil" || k == g.E-1 {
				return "in-tok(" + g.T + ")"
			}
		}
		return "in-tok"
	}
	return "in-" + g.K // ws lcom
}

// endKind names a segment as the thing a cut (or the end of the text) comes after.
func endKind(g *Seg) string {
	if g.K == "tok" && (g.T == "nil" || g.T == "t") {
		return "tok(" + g.T + ")"
	}
	return g.K
}

func cutStates(c *Case) []cutInfo {
	n := len(c.Text)
	out := make([]cutInfo, n+1)
	for i := range c.Segs {
		g := &c.Segs[i]
		if 0 < i {
			out[g.S] = cutInfo{state: "after-" + endKind(&c.Segs[i-1]), seg: g, boundary: true}
		}
		for k := g.S + 1; k < g.E; k++ {
			out[k] = cutInfo{state: insideState(g, k), seg: g}
		}
	}
	// prefix2: tell #' from ,@ by the text
	for k := 1; k < n; k++ {
		if out[k].state == "in-prefix2" {
			if c.Text[k-1] == '#' {
				out[k].state = "in-sharp"
			} else {
				out[k].state = "in-comma-at"
			}
		}
	}
	return out
}

// ---------------------------------------------------------------------
// the monitors

type runner struct {
	x     *fw.Ctx
	c     *Case
	scope *slip.Scope
	seen  map[string]bool
	nread int
}

func (m *runner) fail(sig, format string, a ...any) {
	m.x.Cover("viol:" + sig)
	if m.seen[sig] {
		return
	}
	m.seen[sig] = true
	m.x.Fail(sig, format, a...)
}

func short(s string) string {
	if 300 < len(s) {
		return s[:300] + "…"
	}
	return s
}

func exec(x *fw.Ctx, c Case) {
	if c.Big != nil {
		execBig(x, c)
		return
	}
	m := &runner{x: x, c: &c, scope: newScope(c.Base, c.FF), seen: map[string]bool{}}
	T := c.Text
	n := len(T)
	x.Cover(fmt.Sprintf("config:base=%d", c.Base))
	x.Cover("config:" + c.FF)
	for _, f := range c.Feats {
		x.Cover("text:" + f)
	}
	if c.Dirty != "" {
		x.Cover("avoided-in-clean-stream:" + c.Dirty)
	}
	if n < 3 {
		x.Trivial()
	}
	internalHook = func(o outcome) {
		m.fail("internal-fault reader=stream", "%q: a stream delivery ends in a Go runtime fault: %s", T, o.err)
	}
	defer func() { internalHook = nil }()
	base := rdString(m.scope, T)
	obs := map[string]any{"text": T, "base": c.Base, "float-format": c.FF, "read-string": short(base.String())}
	x.Observe(obs)
	if base.err != nil && base.err.Internal {
		m.fail("internal-fault reader=string", "%q: %s", T, base.err)
	}

	// monitor 1: independent expectation
	clean := c.Dirty == ""
	agrees := m.expectation(base)

	// other one-piece deliveries
	if o := rdBytes(m.scope, T); !same(base, o) {
		m.fail("delivery=read-bytes", "%q: ReadString %s, Read %s", T, base, o)
	}

	states := cutStates(&c)

	// monitor 1b: one form at a time, with positions
	if clean && agrees {
		m.readOne(base)
	}

	// monitor 2: delivery independence
	single := m.deliveries(base, states)
	if clean && agrees {
		m.clFuncs(base)
	}
	obs["single-cuts-failing"] = countTrue(single)
	obs["cuts"] = n - 1

	// monitor 3: truncation
	if clean && agrees {
		m.truncation(base, states)
	}
	x.CoverN("reads", m.nread)
}

func countTrue(bs []bool) (n int) {
	for _, b := range bs {
		if b {
			n++
		}
	}
	return
}

// expectation compares what ReadString produced with what the generator
// built the text from.
// blame names the root cause of a disagreement with the expectation by the leaf that is
// misread, not by the form it happens to sit in: the first leaf of the forms from..to that,
// read on its own, is not what the generator made it from; else a structural cause.
func (m *runner) blame(from, to int) string {
	c := m.c
	dot := false
	for i := range c.Segs {
		g := &c.Segs[i]
		if g.F < from || to < g.F || g.W == "" {
			continue
		}
		if g.K == "pipe" && g.W == `s:"."` {
			dot = true
		}
		o := rdString(m.scope, c.Text[g.S:g.E]+" ")
		m.nread++
		if o.err != nil || len(o.approx) != 1 || o.approx[0] != g.W {
			if g.K == "tok" {
				return "leaf=tok:" + g.C
			}
			return "leaf=" + g.K
		}
	}
	if dot {
		return "barred-dot-in-list"
	}
	if from == to {
		return "structure-of=" + c.Forms[from].Head
	}
	return "structure"
}

func (m *runner) expectation(base outcome) bool {
	c, x := m.c, m.x
	dirtySig := func() string { return "expect avoided-construct=" + c.Dirty }
	if base.err != nil {
		sig := "expect got=" + base.class() + " cause=" + m.blame(0, len(c.Forms)-1)
		if c.Dirty != "" {
			sig = dirtySig()
		}
		m.fail(sig, "well-formed text %q: ReadString reports %s", c.Text, base.err)
		return false
	}
	if len(base.vals) != len(c.Forms) {
		sig := "expect got=wrong-count cause=" + m.blame(0, len(c.Forms)-1)
		if c.Dirty != "" {
			sig = dirtySig()
		}
		m.fail(sig, "text %q holds %d forms, ReadString gives %d: %s", c.Text, len(c.Forms), len(base.vals), base)
		return false
	}
	ok := true
	for i, f := range c.Forms {
		if f.Want == "" {
			x.Cover("expect:not-pinned")
			continue
		}
		if base.approx[i] != f.Want {
			sig := "expect got=other-object cause=" + m.blame(i, i)
			if c.Dirty != "" {
				sig = dirtySig()
			}
			m.fail(sig, "text %q form %d %q denotes %s, ReadString gives %s", c.Text, i, c.Text[f.S:f.E], f.Want, base.approx[i])
			ok = false
			continue
		}
		x.Cover("expect:agree")
	}
	return ok
}

// readOne reads the text one form at a time from the position the harness
// knows each form ends at, and checks object and reported position.
func (m *runner) readOne(base outcome) {
	c, x := m.c, m.x
	T := c.Text
	pos := 0
	for i, f := range c.Forms {
		o := rdOne(m.scope, T[pos:])
		m.nread++
		switch {
		case o.err != nil:
			m.fail("readone got="+gotKind(o)+" ends-with="+f.Kind, "%q from %d: ReadOne reports %s, ReadString gave %s", T, pos, o.err, base.vals[i])
		case len(o.vals) != 1:
			m.fail("readone got=wrong-count ends-with="+f.Kind, "%q from %d: ReadOne gives %d objects", T, pos, len(o.vals))
		case o.vals[0] != base.vals[i]:
			m.fail("readone got=other-object ends-with="+f.Kind, "%q from %d: ReadOne gives %s, ReadString gave %s", T, pos, o.vals[0], base.vals[i])
		default:
			x.Cover("readone:object-agrees")
			if pos+o.pos != f.E {
				m.fail("readone-position ends-with="+f.Kind, "%q: form %q ends at %d, ReadOne from %d reports %d (the next read starts with %q)",
					T, T[f.S:f.E], f.E, pos, pos+o.pos, short(T[min(pos+o.pos, len(T)):]))
			} else {
				x.Cover("readone:position-agrees")
			}
		}
		pos = f.E
	}
	o := rdOne(m.scope, T[pos:])
	m.nread++
	if o.err != nil || len(o.vals) != 0 {
		m.fail("readone trailing", "%q from %d (only blanks and comments left): ReadOne gives %s", T, pos, o)
	}
}

func isASCII(s string) bool {
	for i := 0; i < len(s); i++ {
		if 0x80 <= s[i] {
			return false
		}
	}
	return true
}

// clFuncs observes cl:read-from-string (object and second value) and cl:read
// on a seekable and on a byte-at-a-time stream (first object).
func (m *runner) clFuncs(base outcome) {
	c, x := m.c, m.x
	T := c.Text
	if isASCII(T) {
		for i, f := range c.Forms {
			args := slip.List{slip.String(T), nil, nil, slip.Symbol(":preserve-whitespace"), slip.True}
			if 0 < f.S {
				args = append(args, slip.Symbol(":start"), slip.Fixnum(f.S))
			}
			res, err := callFn(m.scope, "read-from-string", args)
			m.nread++
			vs, _ := res.(slip.Values)
			switch {
			case err != nil:
				m.fail("read-from-string got=error ends-with="+f.Kind, "(read-from-string %q nil nil :preserve-whitespace t :start %d): %s", T, f.S, err)
			case len(vs) != 2:
				m.fail("read-from-string got=shape", "(read-from-string %q …) returns %s", T, show(res, true))
			default:
				if show(vs[0], true) != base.vals[i] {
					m.fail("read-from-string got=other-object ends-with="+f.Kind, "(read-from-string %q nil nil :preserve-whitespace t :start %d) gives %s, ReadString gave %s",
						T, f.S, show(vs[0], true), base.vals[i])
				} else if p, _ := vs[1].(slip.Fixnum); int(p) != f.E {
					m.fail("read-from-string-position ends-with="+f.Kind, "(read-from-string %q nil nil :preserve-whitespace t :start %d): form %q ends at %d, second value is %s",
						T, f.S, T[f.S:f.E], f.E, show(vs[1], true))
				} else {
					x.Cover("read-from-string:agrees")
				}
			}
		}
		// without preserve-whitespace the position is after the blanks that follow
		f := c.Forms[0]
		want := f.E
		for want < len(T) && strings.IndexByte(" \t\n\r", T[want]) >= 0 {
			want++
		}
		res, err := callFn(m.scope, "read-from-string", slip.List{slip.String(T)})
		m.nread++
		if vs, _ := res.(slip.Values); err == nil && len(vs) == 2 {
			if p, _ := vs[1].(slip.Fixnum); int(p) != want && int(p) != f.E {
				m.fail("read-from-string-position ends-with="+f.Kind, "(read-from-string %q): form %q ends at %d (%d after blanks), second value is %s",
					T, T[f.S:f.E], f.E, want, show(vs[1], true))
			}
		}
	}
	m.rfsPositions(base)
	f := c.Forms[0]
	// the byte-wise path of cl:read re-reads a growing prefix; name the first leaf of the
	// first form whose proper prefixes are hard errors for the pinned tree
	trigger := "none"
	for i := range c.Segs {
		// leaves that stay unreadable by the grow-and-retry loop: a proper prefix is a hard error
		// of its own (#\u0041 through #\u0 = code 0, #b101/0111 through #b101/0 = zero denominator)
		g := &c.Segs[i]
		txt := T[g.S:g.E]
		if g.F == 0 && g.K == "char" && 4 < len(txt) && (txt[2] == 'u' || txt[2] == 'U') && txt[3] == '0' {
			trigger = "hex-character-with-leading-zero"
			break
		}
		if g.F == 0 && g.K == "rint" && strings.Contains(txt, "/0") {
			trigger = "radix-ratio-denominator-with-leading-zero"
			break
		}
	}
	for i := range c.Segs {
		if trigger != "none" {
			break
		}
		g := &c.Segs[i]
		if g.F == 0 && (g.K == "char" || g.K == "pipe" || g.K == "rint" || (g.K == "str" && 0 < len(g.X))) {
			trigger = g.K
			if g.K == "str" {
				trigger = "str-with-escape"
			}
			break
		}
	}
	for _, kind := range []string{"seekable", "bytewise", "bytewise-eof-with-last-byte"} {
		var stream slip.Object
		switch kind {
		case "seekable":
			stream = slip.NewStringStream([]byte(T))
		case "bytewise":
			stream = slip.NewInputStream(newPieces(T, nil, 0))
		default:
			// the io.Reader contract allows the last bytes to arrive together with io.EOF
			stream = slip.NewInputStream(newPieces(T, nil, mEOFLast))
		}
		res, err := callFn(m.scope, "read", slip.List{stream})
		m.nread++
		sig := "cl-read stream=" + kind
		if kind != "seekable" {
			sig += " first-form-holds=" + trigger
		}
		switch {
		case err == nil && show(res, true) == base.vals[0]:
			x.Cover("cl-read:" + kind + ":agrees")
		case err != nil:
			m.fail(sig+" got=error", "(read <%s stream on %q>): %s, ReadString gave %s", kind, T, err, base.vals[0])
		case show(res, true) != base.vals[0]:
			m.fail(sig+" got=other-object", "(read <%s stream on %q>) gives %s, ReadString gave %s (first form %q)", kind, T, show(res, true), base.vals[0], T[f.S:f.E])
		default:
			x.Cover("cl-read:" + kind + ":agrees")
		}
	}
}

// rfsPositions: the second value of read-from-string is an index into the STRING, in the
// unit :start and :end use (characters), also for a text with multi-byte characters and
// also when the reading started at :start > 0; without :preserve-whitespace it may lie
// behind the blanks that follow the form, never further.
func (m *runner) rfsPositions(base outcome) {
	c, x := m.c, m.x
	T := c.Text
	ascii := isASCII(T)
	chars := func(off int) int { return utf8.RuneCountInString(T[:off]) }
	for i, f := range c.Forms {
		if ascii && f.S == 0 {
			continue // judged by clFuncs
		}
		for _, pw := range []bool{true, false} {
			if ascii && pw {
				continue // judged by clFuncs
			}
			args := slip.List{slip.String(T), nil, nil}
			if pw {
				args = append(args, slip.Symbol(":preserve-whitespace"), slip.True)
			}
			if 0 < f.S {
				args = append(args, slip.Symbol(":start"), slip.Fixnum(chars(f.S)))
			}
			res, err := callFn(m.scope, "read-from-string", args)
			m.nread++
			vs, _ := res.(slip.Values)
			if err != nil || len(vs) != 2 || show(vs[0], true) != base.vals[i] {
				// what is read is judged elsewhere (ASCII) or is another finding's matter
				x.Cover("read-from-string-position:object-not-comparable")
				continue
			}
			after := f.E
			for after < len(T) && strings.IndexByte(" \t\n\r", T[after]) >= 0 {
				after++
			}
			got, _ := vs[1].(slip.Fixnum)
			// without :preserve-whitespace any position from the end of the form to the end of the
			// blanks behind it is one from which reading goes on with the same next object
			ok := int(got) == chars(f.E) || !pw && chars(f.E) <= int(got) && int(got) <= chars(after)
			if ok {
				x.Cover("read-from-string-position:agrees")
				continue
			}
			text := "ascii"
			if !ascii {
				text = "non-ascii"
			}
			sig := fmt.Sprintf("read-from-string-position text=%s preserve-whitespace=%s", text, map[bool]string{true: "t", false: "nil"}[pw])
			if ascii {
				sig = "read-from-string-position text=ascii start>0 preserve-whitespace=nil position=before-the-end-of-the-form"
				if chars(after) < int(got) {
					sig = "read-from-string-position text=ascii start>0 preserve-whitespace=nil position=beyond-the-following-blanks"
				}
			} else if pw && int(got) == f.E-f.S+chars(f.S) {
				sig += " unit=bytes"
			}
			m.fail(sig, "(read-from-string %q nil nil%s :start %d): the form %q ends at character %d (%d after the blanks that follow), the second value is %d",
				T, map[bool]string{true: " :preserve-whitespace t", false: ""}[pw], chars(f.S), T[f.S:f.E], chars(f.E), chars(after), int(got))
		}
	}
}

// deliveries feeds the same bytes through stream readers cut in every way the
// quantifier names and compares with the one-piece reading.
func (m *runner) deliveries(base outcome, states []cutInfo) []bool {
	c, x := m.c, m.x
	T := c.Text
	n := len(T)
	rng := rand.New(rand.NewPCG(fw.Hash64([]byte(T)), 0xC02))
	single := make([]bool, n+1)

	// whole text in one piece, both EOF conventions, and with empty reads
	atEnd := "after-" + endKind(&c.Segs[len(c.Segs)-1])
	for _, mode := range []int{0, mEOFLast, mZero, mZero | mEOFLast} {
		o := rdStream(m.scope, newPieces(T, nil, mode))
		m.nread++
		if !same(base, o) {
			m.fail("delivery=stream cuts=none end-of-text="+atEnd, "%q in one piece (%s): ReadString %s, ReadStream %s", T, modeName(mode), base, o)
		} else {
			x.Cover("whole-stream:agrees")
		}
	}
	// every single cut position
	for k := 1; k < n; k++ {
		st := states[k].state
		x.Cover("cut:" + st)
		for _, mode := range []int{0, mEOFLast, mZero | mEOFLast} {
			o := rdStream(m.scope, newPieces(T, []int{k}, mode))
			m.nread++
			if same(base, o) {
				continue
			}
			single[k] = true
			m.fail("delivery=stream cut="+st, "%q delivered as %q + %q (%s): ReadString %s, ReadStream %s",
				T, T[:k], T[k:], modeName(mode), base, o)
		}
		if !single[k] {
			x.Cover("cut-agrees:" + st)
		}
	}
	multi := func(cuts []int, mode int, what string) {
		o := rdStream(m.scope, newPieces(T, cuts, mode))
		m.nread++
		switch {
		case same(base, o):
			x.Cover(what + ":agrees")
		default:
			m.fail("delivery=stream cuts="+what, "%q cut at %v (%s): ReadString %s, ReadStream %s", T, cuts, modeName(mode), base, o)
		}
	}
	// every fixed chunk size
	step := 1
	if c.Long {
		step = 3
	}
	for s := 1; s < n; s += step {
		var cuts []int
		for k := s; k < n; k += s {
			cuts = append(cuts, k)
		}
		multi(cuts, s&1, "chunk-size")
	}
	// random multi-cuts
	nm := 200
	if c.Long {
		nm = 60
	}
	if n < 3 {
		nm = 0
	}
	for j := 0; j < nm; j++ {
		cnt := 2 + rng.IntN(5)
		set := map[int]bool{}
		for len(set) < cnt && len(set) < n-1 {
			set[1+rng.IntN(n-1)] = true
		}
		cuts := make([]int, 0, len(set))
		for k := range set {
			cuts = append(cuts, k)
		}
		sort.Ints(cuts)
		mode := 0
		if j%3 == 1 {
			mode = mEOFLast
		}
		if j%17 == 2 {
			mode |= mZero
		}
		multi(cuts, mode, "multi-cut")
	}
	// every pair of cuts of a short text (bounded exhaustive)
	if pairLimit := map[string]int{"quick": 24, "thorough": 48}[x.Tier]; n <= pairLimit {
		for a := 1; a < n; a++ {
			for b := a + 1; b < n; b++ {
				multi([]int{a, b}, (a+b)&1, "cut-pair")
			}
		}
		x.Cover("cut-pairs-exhaustive")
	}
	// the same pieces through slip's RuneReader wrapper (slip.InputStream) must read the same
	for j := 0; j < 12 && 2 < n; j++ {
		cnt := 1 + rng.IntN(4)
		set := map[int]bool{}
		for len(set) < cnt && len(set) < n-1 {
			set[1+rng.IntN(n-1)] = true
		}
		cuts := make([]int, 0, len(set))
		for k := range set {
			cuts = append(cuts, k)
		}
		sort.Ints(cuts)
		plain := rdStream(m.scope, newPieces(T, cuts, j&1))
		wrapped := rdStream(m.scope, slip.NewInputStream(newPieces(T, cuts, j&1)))
		m.nread += 2
		if !same(plain, wrapped) {
			m.fail("delivery=stream via=rune-reader differs-from=plain", "%q cut at %v: plain reader %s, through slip.InputStream %s", T, cuts, plain, wrapped)
		} else {
			x.Cover("rune-reader:agrees-with-plain")
		}
	}
	// push / each / one-form stream reading must agree with ReadStream on the same pieces
	var sets [][]int
	sets = append(sets, nil)
	for j := 0; j < 6 && 2 < n; j++ {
		sets = append(sets, []int{1 + rng.IntN(n-1)})
	}
	for _, s := range []int{1, 2, 3, 7} {
		var cuts []int
		for k := s; k < n; k += s {
			cuts = append(cuts, k)
		}
		sets = append(sets, cuts)
	}
	// cuts that fall exactly between top-level objects: each one alone and all together
	var between []int
	for _, f := range c.Forms {
		for _, k := range []int{f.S, f.E} {
			if 0 < k && k < n && (len(between) == 0 || between[len(between)-1] < k) {
				between = append(between, k)
			}
		}
	}
	if 0 < len(between) {
		sets = append(sets, between)
		for j, k := range between {
			if j < 6 {
				sets = append(sets, []int{k})
			}
		}
		x.Cover("cuts-exactly-between-objects")
	}
	// cuts inside a multi-byte code point (string, |symbol|, #\ name, comment)
	inRune := 0
	for k := 1; k < n && inRune < 6; k++ {
		if T[k]&0xC0 == 0x80 {
			sets = append(sets, []int{k})
			inRune++
			x.Cover("cut-inside-code-point:" + states[k].state)
		}
	}
	for j, cuts := range sets {
		mode := j & 1
		ref := rdStream(m.scope, newPieces(T, cuts, mode))
		op := rdPush(m.scope, newPieces(T, cuts, mode), n)
		oe := rdEach(m.scope, newPieces(T, cuts, mode))
		m.nread += 3
		if !same(ref, op) {
			m.fail("delivery=push differs-from=stream", "%q cut at %v: ReadStream %s, ReadStreamPush %s", T, cuts, ref, op)
		} else {
			x.Cover("push:agrees-with-stream")
		}
		if ow := rdStream(m.scope, slip.NewInputStream(newPieces(T, cuts, mode))); !same(ref, ow) {
			m.fail("delivery=stream via=rune-reader differs-from=plain", "%q cut at %v: plain reader %s, through slip.InputStream %s", T, cuts, ref, ow)
		} else {
			x.Cover("rune-reader:agrees-with-plain")
		}
		m.nread++
		if !same(ref, oe) {
			m.fail("delivery=each differs-from=stream", "%q cut at %v: ReadStream %s, ReadStreamEach %s", T, cuts, ref, oe)
		} else {
			x.Cover("each:agrees-with-stream")
		}
		// one form from a stream: same object and position as ReadOne
		if base.err == nil && 0 < len(base.vals) {
			one := rdOne(m.scope, T)
			so := rdStreamOne(m.scope, newPieces(T, cuts, mode))
			m.nread += 2
			if !same(one, so) || (one.err == nil && one.pos != so.pos) {
				m.fail("delivery=stream-one differs-from=readone", "%q cut at %v: ReadOne %s pos %d, ReadStream(one) %s pos %d", T, cuts, one, one.pos, so, so.pos)
			} else {
				x.Cover("stream-one:agrees-with-readone")
			}
		}
	}
	// the natural block boundary: the text is padded so that byte k of it is
	// the first byte of the second 64 KiB block of a plain reader
	nat := 2
	if x.Tier == "thorough" {
		nat = 4
	}
	for j := 0; j < nat && 2 < n; j++ {
		k := 1 + rng.IntN(n-1)
		pad := padding(rng, 65536-k)
		full := pad + T
		ref := rdString(m.scope, full)
		o := rdStream(m.scope, bytes.NewReader([]byte(full)))
		m.nread += 2
		st := states[k].state
		switch {
		case same(ref, o):
			x.Cover("natural-block:agrees")
		default:
			m.fail("delivery=natural-block cut="+st, "%d bytes of padding + %q, block boundary before %q: ReadString gives %d objects ending %s, ReadStream %d objects ending %s",
				len(pad), T, T[k:], len(ref.vals), tail(ref), len(o.vals), tail(o))
		}
	}
	return single
}

func modeName(mode int) string {
	s := "EOF reported by a separate empty read"
	if mode&mEOFLast != 0 {
		s = "EOF reported together with the last piece"
	}
	if mode&mZero != 0 {
		s += ", with empty reads in between"
	}
	return s
}

func tail(o outcome) string {
	if o.err != nil {
		return "<" + o.err.String() + ">"
	}
	v := o.vals
	if 4 < len(v) {
		v = v[len(v)-4:]
	}
	return short("[… " + strings.Join(v, " | ") + "]")
}

// padding produces n bytes of blanks, comments or filler forms ending in a blank.
func padding(rng *rand.Rand, n int) string {
	var unit string
	switch rng.IntN(4) {
	case 0:
		unit = " "
	case 1:
		unit = "; padding line\n"
	case 2:
		unit = "(pad 1 \"s\") "
	default:
		unit = "pad-word\n"
	}
	var b strings.Builder
	b.Grow(n)
	rest := n % len(unit)
	b.WriteString(strings.Repeat(" ", rest))
	b.WriteString(strings.Repeat(unit, n/len(unit)))
	return b.String()
}

// truncation reads every proper prefix of the text.
func (m *runner) truncation(base outcome, states []cutInfo) {
	c, x := m.c, m.x
	T := c.Text
	n := len(T)
	for k := 1; k < n; k++ {
		ci := states[k]
		g := ci.seg
		st := ci.state
		o := rdString(m.scope, T[:k])
		m.nread++
		if o.err != nil && o.err.Internal {
			m.fail("truncation cut="+st+" got=internal", "%q: %s", T[:k], o.err)
			continue
		}
		mustErr := false
		frag := -1 // form index whose fragment is read on its own
		switch {
		case 0 < g.D:
			mustErr = true
		case ci.boundary:
			mustErr = 0 < g.P
		default:
			switch st {
			case "in-ws", "in-lcom":
				mustErr = 0 < g.P
			case "in-tok", "in-tok(nil)", "in-tok(final-t)", "in-char", "in-rint-start", "in-rint", "in-bits":
				frag = g.F
			default:
				mustErr = true
			}
		}
		if mustErr {
			if o.err == nil {
				m.fail("truncation cut="+st+" want=incomplete got=value", "%q stops inside a form of %q but is read as %s", T[:k], T, o)
			} else {
				x.Cover("truncation:reported-incomplete:" + o.class())
			}
			continue
		}
		var want []string
		wantErr := false
		if 0 <= frag {
			want = append(want, base.vals[:frag]...)
			fo := rdString(m.scope, T[c.Forms[frag].S:k])
			m.nread++
			if fo.err != nil {
				wantErr = true
			} else {
				want = append(want, fo.vals...)
			}
		} else {
			cnt := 0
			for _, f := range c.Forms {
				if f.E <= k {
					cnt++
				}
			}
			want = base.vals[:cnt]
		}
		if st == "in-char" && 0 <= frag && o.err == nil {
			// independent of what slip makes of the fragment alone: a character NAME of two or
			// more characters (not u+hex digits) never denotes its own first letter, so "#\\Spac"
			// (a cut "#\\Space") read as #\\S is a different object read silently
			name := T[c.Forms[frag].S:k]
			if strings.HasPrefix(name, "#\\") {
				name = name[2:]
				first, sz := utf8.DecodeRuneInString(name)
				hex := 1 < len(name) && (name[0] == 'u' || name[0] == 'U')
				for _, b := range name[min(1, len(name)):] {
					hex = hex && strings.ContainsRune("0123456789abcdefABCDEF", b)
				}
				if sz < len(name) && !hex && 0 < len(o.vals) && o.vals[len(o.vals)-1] == fmt.Sprintf("c:U+%04X", first) {
					m.fail("truncation cut=in-char want=error-of-cut-name got=first-letter", "%q: the cut character name %q is no character name, it is read as its first letter %s", T[:k], name, o.vals[len(o.vals)-1])
					continue
				}
				x.Cover("truncation:cut-character-name-judged")
			}
		}
		switch {
		case wantErr && o.err == nil:
			m.fail("truncation cut="+st+" want=error-of-cut-token got=value", "%q: the cut token %q alone is an error, the whole is read as %s", T[:k], T[c.Forms[frag].S:k], o)
		case wantErr:
			x.Cover("truncation:cut-token-error-agrees")
		case o.err != nil:
			m.fail("truncation cut="+st+" want=value got=error", "%q is complete forms (plus a cut bare token) but reports %s; expected %v", T[:k], o.err, want)
		case strings.Join(o.vals, "\x00") != strings.Join(want, "\x00"):
			m.fail("truncation cut="+st+" want=value got=other-objects", "%q: expected [%s], read as %s", T[:k], strings.Join(want, " | "), o)
		default:
			x.Cover("truncation:prefix-objects-agree")
		}
	}
}

func init() {
	fw.Register(fw.Spec[Case]{
		ID: "C02",
		Rule: "case = source text rendered from a generated token AST (lists, dotted pairs incl. (a . nil), strings and |symbols| with escapes and raw UTF-8, " +
			"#\\ characters, integers/ratios/floats under *read-base* 2/8/10/16/36 (incl. decimal digits outside the base) and all four *read-default-float-format*, " +
			"#b #o #x #nr integers and ratios, #( #nA #* #C, the prefixes #' ' ` , ,@ before ANY kind of object, ; and #| |# comments (10% of texts comment-heavy), 8% CRLF texts, @time tokens), " +
			"<= 120 bytes (4% long texts <= 420), with its lexical segments, form ends and expected objects. Special cases: one form nested 200..350 levels deep (lists, vectors, quoted lists) cut at every byte = every depth; " +
			"texts around ONE token of 65..140 KB (string, symbol, |symbol|, integer, bit vector; bare, in a list, quoted, between other forms) read through the natural 64 KiB blocks, cuts around the boundary and inside the token, chunk sizes 1..100000. " +
			"The first block (every ordered pair of form kinds; literal probes: digits/letters at the edge of every *read-base*, barred punctuation symbols in every list position, prefixes before every object kind, leaves whose prefixes are unreadable; 3 deep and 12 long-token cases; 300 fixed-seed texts) is the same for every seed. " +
			"Per case: ReadString vs expectation (disagreements named by root cause); ReadOne and read-from-string object+position per form; cl:read (seekable and byte-wise stream); " +
			"ReadStream for EVERY single cut position under three reader behaviours (EOF by a separate read, EOF together with the last data, 0-byte reads + EOF with data), every fixed chunk size, " +
			"every pair of cuts of short texts, 200 random multi-cuts, slip.InputStream wrapper, push/each/one-form variants (incl. cuts exactly between top-level objects and inside multi-byte code points), padding to the natural 64 KiB block boundary; every proper prefix (truncation). " +
			"The avoid set is empty: every construct the pinned tree misread is repaired and generated in the clean stream (incl. .5 floats and 10. under a non-decimal base); only constructs slip rejects loudly and identically in every delivery are not generated (see meta note). Distinct = distinct case JSON; non-trivial = text of >= 3 bytes",
		N:     nCases,
		Gen:   gen,
		Exec:  exec,
		Batch: 60,
		Assumptions: []string{
			"the generator's token classifier (CL token syntax + slip's documented extensions) is the independent expectation for bare tokens",
			"slip keeps the case of symbol names (dialect); float literals have <= 6 significant digits so rounding is not in play",
		},
	})
}

// ---------------------------------------------------------------------
// one token longer than the 64 KiB read block

// bigText renders the text of a Big case and what its top-level forms denote.
func bigText(b *Big) (text string, wants []string, tokStart, tokEnd int) {
	var unit, lit, want string
	rep := func(u string, n int) string { return strings.Repeat(u, n/len(u)+1) }
	switch b.Kind {
	case "str":
		unit = `xy\n€z q\"`
		lit = `"` + rep(unit, b.Len) + `"`
		want = strconv.Quote(strings.Repeat("xy\n€z q\"", b.Len/len(unit)+1))
	case "sym":
		unit = "sym-bol*"
		lit = rep(unit, b.Len)
		want = "s:" + strconv.Quote(lit)
	case "pipe":
		unit = `Bar red\t€;(`
		lit = "|" + rep(unit, b.Len) + "|"
		want = "s:" + strconv.Quote(strings.Repeat("Bar red\t€;(", b.Len/len(unit)+1))
	case "int":
		unit = "1234567890"
		lit = rep(unit, b.Len)
		want = "I:" + lit
	default: // bits
		unit = "10"
		lit = "#*" + rep(unit, b.Len)
		want = lit
	}
	pad := strings.Repeat(" ", b.Pad)
	switch b.Wrap {
	case 1:
		text = pad + "(alpha " + lit + " omega)"
		tokStart = len(pad) + 7
		wants = []string{`(s:"alpha" ` + want + ` s:"omega")`}
	case 2:
		text = pad + "'" + lit + "\n"
		tokStart = len(pad) + 1
		wants = []string{"{quote " + want + "}"}
	case 3:
		text = pad + `beta "s" ` + lit + " gamma ; end\n"
		tokStart = len(pad) + 9
		wants = []string{`s:"beta"`, `"s"`, want, `s:"gamma"`}
	default:
		text = pad + lit
		tokStart = len(pad)
		wants = []string{want}
	}
	tokEnd = tokStart + len(lit)
	return
}

func execBig(x *fw.Ctx, c Case) {
	b := c.Big
	m := &runner{x: x, c: &c, scope: newScope(10, c.FF), seen: map[string]bool{}}
	T, wants, ts, te := bigText(b)
	n := len(T)
	x.Cover("big-token:" + b.Kind)
	x.Cover(fmt.Sprintf("big-token:block-boundaries-inside=%d", te/65536-ts/65536))
	sig := func(what string) string { return "big-token kind=" + b.Kind + " " + what }
	internalHook = func(o outcome) {
		m.fail(sig("internal-fault"), "%d-byte %s token: a stream delivery ends in a Go runtime fault: %s", te-ts, b.Kind, o.err)
	}
	defer func() { internalHook = nil }()
	brief := func(o outcome) string {
		if o.err != nil {
			return "<" + o.err.String() + ">"
		}
		var ss []string
		for _, v := range o.vals {
			if 60 < len(v) {
				v = fmt.Sprintf("%s…%s (%d bytes, hash %x)", v[:24], v[len(v)-24:], len(v), fw.Hash64([]byte(v)))
			}
			ss = append(ss, v)
		}
		return "[" + strings.Join(ss, " | ") + "]"
	}
	base := rdString(m.scope, T)
	x.Observe(map[string]any{"big": b, "bytes": n, "token-at": []int{ts, te}, "read-string": brief(base)})
	if base.err != nil || len(base.approx) != len(wants) {
		m.fail(sig("expect"), "text of %d bytes around a %d-byte %s token holds %d forms: ReadString gives %s", n, te-ts, b.Kind, len(wants), brief(base))
		return
	}
	for i, w := range wants {
		if base.approx[i] != w {
			m.fail(sig("expect"), "form %d of the text around a %d-byte %s token: ReadString gives %s, expected a %d-byte rendering with hash %x", i, te-ts, b.Kind, brief(outcome{vals: base.approx[i : i+1]}), len(w), fw.Hash64([]byte(w)))
			return
		}
	}
	x.Cover("big-token:expectation-agrees")
	judge := func(what string, o outcome) {
		m.nread++
		if same(base, o) {
			x.Cover("big-token:" + what + ":agrees")
			return
		}
		m.fail(sig("delivery="+what), "text of %d bytes, %s token at %d..%d: ReadString %s, %s gives %s", n, b.Kind, ts, te, brief(base), what, brief(o))
	}
	judge("read-bytes", rdBytes(m.scope, T))
	judge("natural-blocks", rdStream(m.scope, bytes.NewReader([]byte(T))))
	judge("natural-blocks", rdStream(m.scope, strings.NewReader(T)))
	judge("natural-blocks-eof-with-data", rdStream(m.scope, newPieces(T, nil, mEOFLast)))
	judge("natural-blocks-empty-reads", rdStream(m.scope, newPieces(T, nil, mZero)))
	judge("rune-reader", rdStream(m.scope, slip.NewInputStream(bytes.NewReader([]byte(T)))))
	judge("push", rdPush(m.scope, bytes.NewReader([]byte(T)), 8))
	judge("each", rdEach(m.scope, bytes.NewReader([]byte(T))))
	rng := rand.New(rand.NewPCG(uint64(b.Len)*31+uint64(b.Pad), 0xB16))
	// single cuts around the boundary and the token ends, and random ones inside the token
	cuts := []int{65535, 65536, 65537, ts, ts + 1, te - 1, te, (ts + te) / 2}
	for j := 0; j < 8; j++ {
		cuts = append(cuts, ts+1+rng.IntN(te-ts-1))
	}
	for j, k := range cuts {
		if 0 < k && k < n {
			judge("single-cut", rdStream(m.scope, newPieces(T, []int{k}, j%3)))
		}
	}
	for j := 0; j < 6; j++ {
		set := []int{1 + rng.IntN(n-1), 1 + rng.IntN(n-1), 1 + rng.IntN(n-1), ts + 1 + rng.IntN(te-ts-1)}
		sort.Ints(set)
		judge("multi-cut", rdStream(m.scope, newPieces(T, set, j%3)))
	}
	for j, s := range []int{1, 7, 1000, 4096, 65535, 65537, 100000} {
		var cs []int
		for k := s; k < n; k += s {
			cs = append(cs, k)
		}
		judge("chunk-size", rdStream(m.scope, newPieces(T, cs, j%3)))
	}
	// one form from the stream: object and position as ReadOne
	one := rdOne(m.scope, T)
	so := rdStreamOne(m.scope, bytes.NewReader([]byte(T)))
	m.nread += 2
	if !same(one, so) || (one.err == nil && one.pos != so.pos) {
		m.fail(sig("delivery=stream-one"), "%s token at %d..%d: ReadOne %s pos %d, ReadStream(one) %s pos %d", b.Kind, ts, te, brief(one), one.pos, brief(so), so.pos)
	} else {
		x.Cover("big-token:stream-one:agrees")
	}
	if one.err == nil && b.Wrap != 3 && len(one.vals) == 1 {
		wantPos := te
		if b.Wrap == 1 {
			wantPos = n
		}
		if one.pos != wantPos {
			m.fail(sig("readone-position"), "%s token at %d..%d, form ends at %d, ReadOne reports %d", b.Kind, ts, te, wantPos, one.pos)
		}
	}
	res, err := callFn(m.scope, "read", slip.List{slip.NewStringStream([]byte(T))})
	m.nread++
	if err != nil || show(res, true) != base.vals[0] {
		m.fail(sig("cl-read-seekable"), "(read <string stream>) on the text around a %d-byte %s token: %v %s", te-ts, b.Kind, err, brief(outcome{vals: []string{show(res, true)}}))
	} else {
		x.Cover("big-token:cl-read:agrees")
	}
	// truncation inside the token
	for _, k := range []int{65536, (ts + te) / 2, te - 1} {
		if k <= ts || te <= k {
			continue
		}
		o := rdString(m.scope, T[:k])
		m.nread++
		delimited := b.Kind == "str" || b.Kind == "pipe" || b.Wrap == 1
		switch {
		case o.err != nil && o.err.Internal:
			m.fail(sig("truncation got=internal"), "text cut at %d: %s", k, o.err)
		case delimited && o.err == nil:
			m.fail(sig("truncation want=incomplete got=value"), "text cut at %d inside the %s token is read as %s", k, b.Kind, brief(o))
		default:
			x.Cover("big-token:truncation-agrees")
		}
	}
	x.CoverN("reads", m.nread)
}
