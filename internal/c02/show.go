package c02

import (
	"fmt"
	"math"
	"math/big"
	"regexp"
	"strconv"
	"strings"
	"time"

	"github.com/ohler55/slip"
)

// show renders an object read by slip with the harness's own type switch
// (never slip's printer or Equal). Symbols keep their exact bytes, integers
// carry their representation class, quote-like reader objects are rendered
// as {name arg}. With exact=false a long float is rendered to 2 significant
// digits (see floatWant); with
// exact=true it carries every digit and its precision (for the comparison of
// two deliveries of the same bytes).
func show(obj slip.Object, exact bool) string {
	var b strings.Builder
	showTo(&b, obj, exact, 0)
	return b.String()
}

func showTo(b *strings.Builder, obj slip.Object, exact bool, depth int) {
	if 3000 < depth {
		b.WriteString("#<deep>")
		return
	}
	switch to := obj.(type) {
	case nil:
		b.WriteString("nil")
	case slip.Fixnum:
		b.WriteString("i:")
		b.WriteString(strconv.FormatInt(int64(to), 10))
	case *slip.Bignum:
		b.WriteString("I:")
		b.WriteString((*big.Int)(to).String())
	case *slip.Ratio:
		b.WriteString("r:")
		b.WriteString((*big.Rat)(to).Num().String())
		b.WriteByte('/')
		b.WriteString((*big.Rat)(to).Denom().String())
	case slip.SingleFloat:
		b.WriteString("f:")
		b.WriteString(fmtFloat(float64(to), 32))
	case slip.DoubleFloat:
		b.WriteString("d:")
		b.WriteString(fmtFloat(float64(to), 64))
	case *slip.LongFloat:
		bf := (*big.Float)(to)
		if exact {
			fmt.Fprintf(b, "l:%s/p%d", bf.Text('g', -1), bf.Prec())
		} else {
			f, _ := bf.Float64()
			fmt.Fprintf(b, "l:%.2g", f)
		}
	case slip.String:
		b.WriteString(strconv.Quote(string(to)))
	case slip.Character:
		fmt.Fprintf(b, "c:U+%04X", rune(to))
	case slip.Symbol:
		b.WriteString("s:")
		b.WriteString(strconv.Quote(string(to)))
	case slip.Time:
		b.WriteString("@")
		b.WriteString(time.Time(to).UTC().Format(time.RFC3339Nano))
	case slip.List:
		if len(to) == 0 {
			b.WriteString("nil")
			return
		}
		b.WriteByte('(')
		for i, e := range to {
			if 0 < i {
				b.WriteByte(' ')
			}
			showTo(b, e, exact, depth+1)
		}
		b.WriteByte(')')
	case slip.Tail:
		b.WriteString(". ")
		showTo(b, to.Value, exact, depth+1)
	case slip.Values:
		b.WriteString("#<values")
		for _, e := range to {
			b.WriteByte(' ')
			showTo(b, e, exact, depth+1)
		}
		b.WriteByte('>')
	case *slip.Vector:
		b.WriteString("#(")
		for i, e := range to.AsList() {
			if 0 < i {
				b.WriteByte(' ')
			}
			showTo(b, e, exact, depth+1)
		}
		b.WriteByte(')')
	case *slip.Array:
		fmt.Fprintf(b, "#%dA%v", to.Rank(), to.Dimensions())
		showTo(b, to.AsList(), exact, depth+1)
	case *slip.BitVector:
		b.WriteString("#*")
		for i := 0; i < to.Length(); i++ {
			if to.At(uint(i)) {
				b.WriteByte('1')
			} else {
				b.WriteByte('0')
			}
		}
	case slip.Complex:
		fmt.Fprintf(b, "#C(%v %v)", real(complex128(to)), imag(complex128(to)))
	case slip.Funky:
		// quote-like reader objects are named by their Go type (*cl.Quote, *cl.Function,
		// *cl.Backquote, *cl.Comma, *cl.CommaAt): the Name field of cl.Function is "name"
		b.WriteByte('{')
		tn := fmt.Sprintf("%T", obj)
		if i := strings.LastIndexByte(tn, '.'); 0 <= i {
			tn = tn[i+1:]
		}
		b.WriteString(strings.ToLower(tn))
		for _, a := range to.GetArgs() {
			b.WriteByte(' ')
			showTo(b, a, exact, depth+1)
		}
		b.WriteByte('}')
	default:
		if obj == slip.True {
			b.WriteByte('t')
			return
		}
		// reader-internal markers and anything else: Go type and value
		fmt.Fprintf(b, "#<%T:%v>", obj, obj)
	}
}

func fmtFloat(f float64, bits int) string {
	switch {
	case math.IsNaN(f):
		return "NaN"
	case math.IsInf(f, 1):
		return "+Inf"
	case math.IsInf(f, -1):
		return "-Inf"
	}
	s := strconv.FormatFloat(f, 'g', -1, bits)
	if f == 0 && math.Signbit(f) {
		s = "-0"
	}
	return s
}

// ---------------------------------------------------------------------
// Independent token classifier: what a bare token denotes, written from the
// Common Lisp token syntax (CLHS 2.3.1 numbers as tokens) plus the slip
// documented extensions (@time tokens, case-preserved symbol names, t/nil).
// It returns the expected rendering in show(…, false) syntax; ok=false means
// the token is deliberately not pinned (outside what the check demands).

var (
	reFloatA = regexp.MustCompile(`^[-+]?[0-9]*\.[0-9]+([esfdl][-+]?[0-9]+)?$`)
	reFloatB = regexp.MustCompile(`^[-+]?[0-9]+(\.[0-9]*)?[esfdl][-+]?[0-9]+$`)
	reDecDot = regexp.MustCompile(`^[-+]?[0-9]+\.$`)
)

func digitVal(c byte) int {
	switch {
	case '0' <= c && c <= '9':
		return int(c - '0')
	case 'a' <= c && c <= 'z':
		return int(c-'a') + 10
	case 'A' <= c && c <= 'Z':
		return int(c-'A') + 10
	}
	return 99
}

// isDigits tells whether s is a non-empty run of digits of the base.
func isDigits(s string, base int) bool {
	if s == "" {
		return false
	}
	for i := 0; i < len(s); i++ {
		if base <= digitVal(s[i]) {
			return false
		}
	}
	return true
}

func showInt(x *big.Int) string {
	if x.IsInt64() {
		return "i:" + x.String()
	}
	return "I:" + x.String()
}

func unsign(s string) (neg bool, rest string) {
	if s != "" && (s[0] == '+' || s[0] == '-') {
		return s[0] == '-', s[1:]
	}
	return false, s
}

// floatWant renders the float a literal denotes. mant is sign+digits with an
// optional point, exp the decimal exponent text, format one of single, double, long.
func floatWant(mant, exp, format string) (string, bool) {
	txt := mant
	if exp != "" {
		txt += "e" + exp
	}
	switch format {
	case "single":
		v, err := strconv.ParseFloat(txt, 32)
		if err != nil {
			return "", false
		}
		return "f:" + fmtFloat(v, 32), true
	case "double":
		v, err := strconv.ParseFloat(txt, 64)
		if err != nil {
			return "", false
		}
		return "d:" + fmtFloat(v, 64), true
	}
	v, err := strconv.ParseFloat(txt, 64)
	if err != nil {
		return "", false
	}
	// slip documents a long float's precision as 3.32 bits per mantissa character; the
	// expectation is the value to 2 significant digits and is only pinned when that
	// rendering cannot depend on the rounding at this precision
	_, mb := unsign(mant)
	bits := int(3.32 * float64(len(mb)))
	if bits < 8 {
		return "", false
	}
	tol := math.Ldexp(1, -(bits - 2))
	lo, hi := fmt.Sprintf("l:%.2g", v*(1-tol)), fmt.Sprintf("l:%.2g", v*(1+tol))
	if lo != hi {
		return "", false
	}
	return fmt.Sprintf("l:%.2g", v), true
}

func formatOf(marker byte, ff string) string {
	switch marker {
	case 's', 'f':
		return "single"
	case 'd':
		return "double"
	case 'l':
		return "long"
	}
	switch ff {
	case "single-float", "short-float":
		return "single"
	case "long-float":
		return "long"
	}
	return "double"
}

var timeLayouts = []string{time.RFC3339Nano, "2006-01-02T15:04:05", "2006-01-02"}

// classify gives the expected rendering of a bare token.
func classify(tok string, base int, ff string) (want string, kind string, ok bool) {
	if tok == "t" || tok == "T" {
		return "t", "t", true
	}
	if strings.EqualFold(tok, "nil") {
		return "nil", "nil", true
	}
	if tok[0] == '@' {
		for _, l := range timeLayouts {
			if t, err := time.ParseInLocation(l, tok[1:], time.UTC); err == nil {
				return "@" + t.UTC().Format(time.RFC3339Nano), "time", true
			}
		}
		return "s:" + strconv.Quote(tok), "symbol", true
	}
	neg, body := unsign(tok)
	if isDigits(body, base) {
		x, good := new(big.Int).SetString(body, base)
		if !good {
			return "", "integer", false
		}
		if neg {
			x.Neg(x)
		}
		return showInt(x), "integer", true
	}
	if reDecDot.MatchString(tok) {
		// CL: a trailing point makes the integer decimal whatever *read-base* is.
		x, _ := new(big.Int).SetString(strings.TrimSuffix(body, "."), 10)
		if neg {
			x.Neg(x)
		}
		k := "integer-point"
		if base != 10 {
			k = "integer-point-nondecimal-base"
		}
		return showInt(x), k, true
	}
	if i := strings.IndexByte(body, '/'); 0 < i && isDigits(body[:i], base) && isDigits(body[i+1:], base) {
		n, _ := new(big.Int).SetString(body[:i], base)
		d, _ := new(big.Int).SetString(body[i+1:], base)
		if d.Sign() == 0 {
			return "", "ratio", false
		}
		if neg {
			n.Neg(n)
		}
		q := new(big.Rat).SetFrac(n, d)
		if q.IsInt() {
			// canonical form of an integral ratio is C05's concern
			return "", "ratio", false
		}
		return "r:" + q.Num().String() + "/" + q.Denom().String(), "ratio", true
	}
	low := strings.ToLower(tok)
	if reFloatA.MatchString(low) || reFloatB.MatchString(low) {
		mant, exp := low, ""
		marker := byte(0)
		if i := strings.IndexAny(low, "esfdl"); 0 <= i {
			mant, exp, marker = low[:i], low[i+1:], low[i]
		}
		_, mb := unsign(mant)
		k := "float"
		if mb[0] == '.' {
			k = "float-leading-point"
		}
		w, good := floatWant(mant, exp, formatOf(marker, ff))
		return w, k, good
	}
	if isDigits(body, 10) {
		// only decimal digits, some of them not digits of *read-base*: in CL such a
		// character is alphabetic, the token has no number syntax and is a symbol
		return "s:" + strconv.Quote(tok), "digits-outside-read-base", true
	}
	return "s:" + strconv.Quote(tok), "symbol", true
}
