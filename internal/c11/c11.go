// Package c11 monitors flavor inheritance and method combination: for a
// generated flavor DAG, method assignment and definition history, every
// defflavor/defmethod/defwhopper form is evaluated by the real interpreter in
// the given order, then messages are sent to instances of every flavor and
// the daemons that ran (recorded by a Go builtin the daemons call), the
// results, the instance variables, accepted init keywords, describe-flavor
// and class-precedence are compared with the reference model in model.go.
package c11

import (
	"fmt"
	"sort"
	"strconv"
	"strings"

	"github.com/ohler55/slip"
	"github.com/ohler55/slip/pkg/flavors"

	"verif/internal/fw"
	"verif/internal/sl"
)

// ---- the trace builtin --------------------------------------------------

var trace []string

type trFn struct {
	slip.Function
}

// Call appends the tag (and the rendered argument, if any) to the trace.
func (f *trFn) Call(s *slip.Scope, args slip.List, depth int) slip.Object {
	tag := "?"
	if 0 < len(args) {
		if ss, ok := args[0].(slip.String); ok {
			tag = string(ss)
		}
	}
	if 1 < len(args) {
		tag += ":" + sl.Show(args[1])
	}
	trace = append(trace, tag)
	return nil
}

// otherPkg is a package that neither uses nor is used by the package the
// flavors of a case live in (common-lisp-user); method steps with Pkg 1 are
// evaluated while it is the current package.
var otherPkg *slip.Package

func initWorker() {
	doc := &slip.FuncDoc{
		Name: "c11-tr",
		Args: []*slip.DocArg{
			{Name: "tag", Type: "string"},
			{Name: "&optional"},
			{Name: "arg", Type: "object"},
		},
		Return: "nil",
		Text:   "records a marker in the C11 monitor's trace",
	}
	creator := func(args slip.List) slip.Object {
		f := trFn{Function: slip.Function{Name: "c11-tr", Args: args}}
		f.Self = &f
		return &f
	}
	slip.Define(creator, doc, &slip.UserPkg)
	if _, err := sl.Eval(slip.NewScope(), `(defpackage 'c11q (:use "cl" "generic" "flavors" "clos"))`); err == nil {
		if otherPkg = slip.FindPackage("c11q"); otherPkg != nil {
			d2 := *doc
			slip.Define(creator, &d2, otherPkg)
		}
	}
	sl.Reset()
}

// ---- rendering the forms -------------------------------------------------

func fname(pre string, f int) string { return pre + "f" + strconv.Itoa(f) }

func flavorSrc(pre string, k int, f *Flavor) string { return flavorSrcX(pre, k, f, "", "") }

// flavorSrcX: the defflavor form with one more component (by name) and more
// option text, for the forms that have to fail.
func flavorSrcX(pre string, k int, f *Flavor, extraComp, extraOpts string) string {
	var b strings.Builder
	b.WriteString("(defflavor " + fname(pre, k) + " (")
	for i, v := range f.Vars {
		if 0 < i {
			b.WriteByte(' ')
		}
		if v.noDefault() {
			b.WriteString(v.name())
		} else if v.Nil {
			b.WriteString("(" + v.name() + " nil)")
		} else {
			fmt.Fprintf(&b, "(%s %d)", v.name(), v.D)
		}
	}
	b.WriteString(") (")
	for i, c := range f.Comps {
		if 0 < i {
			b.WriteByte(' ')
		}
		b.WriteString(fname(pre, c))
	}
	if extraComp != "" {
		if 0 < len(f.Comps) {
			b.WriteByte(' ')
		}
		b.WriteString(extraComp)
	}
	b.WriteString(")")
	opt := func(name string, all bool, list []string) {
		if all {
			b.WriteString(" " + name)
		} else if 0 < len(list) {
			b.WriteString(" (" + name + " " + strings.Join(list, " ") + ")")
		}
	}
	opt(":gettable-instance-variables", f.GetAll, f.Get)
	opt(":settable-instance-variables", f.SetAll, f.Set)
	opt(":initable-instance-variables", f.IniAll, f.Ini)
	var plist, kws []string
	for _, k := range f.Keys {
		if k.NoDef {
			kws = append(kws, fmt.Sprintf(":k%d", k.N))
		} else {
			plist = append(plist, fmt.Sprintf("(:k%d %d)", k.N, k.D))
		}
	}
	if 0 < len(plist) {
		b.WriteString(" (:default-init-plist " + strings.Join(plist, " ") + ")")
	}
	if 0 < len(kws) {
		b.WriteString(" (:init-keywords " + strings.Join(kws, " ") + ")")
	}
	if 0 < len(f.Incl) {
		b.WriteString(" (:included-flavors")
		for _, g := range f.Incl {
			b.WriteString(" " + fname(pre, g))
		}
		b.WriteString(")")
	}
	if f.Abstract {
		b.WriteString(" :abstract-flavor")
	}
	if 0 < len(f.ReqVars) {
		b.WriteString(" (:required-instance-variables " + strings.Join(f.ReqVars, " ") + ")")
	}
	if 0 < len(f.ReqFlavors) {
		b.WriteString(" (:required-flavors")
		for _, g := range f.ReqFlavors {
			b.WriteString(" " + fname(pre, g))
		}
		b.WriteString(")")
	}
	b.WriteString(extraOpts)
	b.WriteString(")")
	return b.String()
}

func methodSrc(pre string, m Method, ver int) string {
	ll, a, ca := "()", "", ""
	if 0 < arity(m.Msg) {
		ll, a = "(a)", " a"
		ca = fmt.Sprintf(" (list %d a)", m.F)
	}
	id := fmt.Sprintf("%d.%d", m.F, ver)
	if m.Err {
		// the marker, then an error
		head := "(defmethod (" + fname(pre, m.F) + " :" + m.Kind + " :" + m.Msg + ")"
		switch m.Kind {
		case "whopper":
			head = "(defwhopper (" + fname(pre, m.F) + " :" + m.Msg + ")"
		case "primary":
			head = "(defmethod (" + fname(pre, m.F) + " :" + m.Msg + ")"
		}
		tag := map[string]string{"whopper": "w", "primary": "p", "before": "b", "after": "a"}[m.Kind]
		return fmt.Sprintf(`%s %s (c11-tr "%s%s"%s) (error "c11 %s%s") nil)`, head, ll, tag, id, a, tag, id)
	}
	relay := ""
	if m.Relay && 0 < arity(m.Msg) {
		// on the outermost level only: the same message to self once more
		relay = fmt.Sprintf(` (if (numberp a) (progn (c11-tr "<%d") (send self :%s (list 'r a)) (c11-tr ">%d")))`, m.F, m.Msg, m.F)
	}
	switch m.Kind {
	case "whopper":
		if m.Stop {
			return fmt.Sprintf(`(defwhopper (%s :%s) %s (c11-tr "w%s"%s)%s (c11-tr "x%s") (list 's %d))`,
				fname(pre, m.F), m.Msg, ll, id, a, relay, id, m.F)
		}
		if m.Twice {
			// the first pass through what the whopper wraps is for nothing
			relay += fmt.Sprintf(" (continue-whopper%s)", ca)
		}
		return fmt.Sprintf(`(defwhopper (%s :%s) %s (c11-tr "w%s"%s)%s (let ((r (continue-whopper%s))) (c11-tr "x%s") (list 'w %d r)))`,
			fname(pre, m.F), m.Msg, ll, id, a, relay, ca, id, m.F)
	case "primary":
		return fmt.Sprintf(`(defmethod (%s :%s) %s (c11-tr "p%s"%s) (list %d %d%s))`,
			fname(pre, m.F), m.Msg, ll, id, a, m.F, ver, a)
	}
	if m.Kind != "before" {
		relay = ""
	}
	return fmt.Sprintf(`(defmethod (%s :%s :%s) %s (c11-tr "%s%s"%s)%s)`,
		fname(pre, m.F), m.Kind, m.Msg, ll, m.Kind[:1], id, a, relay)
}

// ---- the monitor ---------------------------------------------------------

type live struct {
	obj  slip.Object
	fi   *flavors.Instance
	m    *inst
	name string
	// after: the kind of the last failed send this instance received
	after string
	// tainted: the instance was found damaged; nothing more is judged on it
	tainted bool
}

type monitor struct {
	x        *fw.Ctx
	c        *Case
	w        *world
	pre      string
	scope    *slip.Scope
	forms    []string
	nInst    int
	rich     bool
	sample   map[string]any
	failures int
	// quiet: the reference-order run of the relation monitor: nothing is
	// judged against the model, observations are only recorded
	quiet bool
	// rec: what the final sweep observed, by observation key (model-free)
	rec    map[string]string
	recLbl map[string]string
	nSend  map[tm]int
	nMake  map[int]int
	early  map[int]*live
	// abandoned: a form that had to fail was accepted; nothing more is judged
	abandoned bool
	// decoys: instances of the decoy flavors, made before they were removed
	decoys []*flavors.Instance
}

func (k *monitor) record(key, label, value string) {
	if k.rec != nil {
		k.rec[key] = strings.ReplaceAll(value, k.pre, "")
		k.recLbl[key] = label
	}
}

func (k *monitor) history() string { return strings.Join(k.forms, " ") }

func (k *monitor) fail(sig, format string, a ...any) {
	if k.quiet {
		return
	}
	k.failures++
	if 6 < k.failures {
		return
	}
	k.x.Fail(sig, "%s || history: %s", fmt.Sprintf(format, a...), k.history())
}

func (k *monitor) eval(src string) (slip.Object, *sl.Err) {
	return sl.Eval(k.scope, src)
}

// evalIn evaluates src while the other package is the current one (pkg 1).
func (k *monitor) evalIn(pkg int, src string) (slip.Object, *sl.Err) {
	if pkg == 0 || otherPkg == nil {
		return k.eval(src)
	}
	was := slip.CurrentPackage
	slip.CurrentPackage = otherPkg
	defer func() { slip.CurrentPackage = was }()
	return k.eval(src)
}

func msgClass(msg string) string {
	if msg == "init" {
		return "vanilla"
	}
	return "user"
}

func sigFor(late int, class, daemon, mc, path string) string {
	switch {
	case late == lateMid:
		return fmt.Sprintf("late=mid fail=%s path=%s", class, path)
	case path == "bound" && class == "order" && daemon == "after":
		return "path=bound fail=order daemon=after"
	case daemon == "whopper3+" && class == "members":
		return "fail=members daemon=whopper3+ path=" + path
	case mc == "vanilla" && daemon == "primary":
		return "msg=vanilla fail=wrong daemon=primary path=" + path
	}
	return fmt.Sprintf("late=%s fail=%s daemon=%s msg=%s path=%s", lateNames[late], class, daemon, mc, path)
}

func ident(m string) string {
	if i := strings.IndexByte(m, ':'); 0 <= i {
		return m[:i]
	}
	return m
}

func idents(ms []string) []string {
	out := make([]string, len(ms))
	for i, m := range ms {
		out[i] = ident(m)
	}
	return out
}

func eqs(a, b []string) bool {
	if len(a) != len(b) {
		return false
	}
	for i := range a {
		if a[i] != b[i] {
			return false
		}
	}
	return true
}

func sameSet(a, b []string) bool {
	a = append([]string{}, a...)
	b = append([]string{}, b...)
	sort.Strings(a)
	sort.Strings(b)
	return eqs(a, b)
}

// splitNested takes the nested sends of relaying daemons (from a "<F" marker
// to the matching ">F", or to the end when the nested send failed) out of a
// trace.
func splitNested(got []string) (flat []string, segs [][]string) {
	for i := 0; i < len(got); i++ {
		if got[i] == "" || got[i][0] != '<' {
			flat = append(flat, got[i])
			continue
		}
		var seg []string
		for i++; i < len(got) && (got[i] == "" || got[i][0] != '>'); i++ {
			seg = append(seg, got[i])
		}
		segs = append(segs, seg)
	}
	return
}

// judgeTrace compares the daemons that ran with the model, kind by kind.
func judgeTrace(e *expect, all []string) (class, daemon string) {
	got, segs := splitNested(all)
	if len(segs) != len(e.nested) {
		return "nested-count", "relay"
	}
	for i, seg := range segs {
		if c, d := judgeTrace(e.nested[i], seg); c != "" {
			return "nested-" + c, d
		}
	}
	var gw, gb, gp, ga, gx, other []string
	for _, m := range got {
		switch m[0] {
		case 'w':
			gw = append(gw, m)
		case 'b':
			gb = append(gb, m)
		case 'p':
			gp = append(gp, m)
		case 'a':
			ga = append(ga, m)
		case 'x':
			gx = append(gx, m)
		default:
			other = append(other, m)
		}
	}
	if e.stopped && eqs(gw, e.whopIn) && 0 < len(gb)+len(gp)+len(ga) {
		return "ran-past-whopper", "whopper-without-continue"
	}
	wname := "whopper"
	if 3 <= e.nWhoppers {
		wname = "whopper3+"
	}
	cmp := func(g, w []string, name string) bool {
		if eqs(g, w) {
			return true
		}
		daemon = name
		switch {
		case !sameSet(idents(g), idents(w)):
			class = "members"
		case !eqs(idents(g), idents(w)):
			class = "order"
		default:
			class = "arg"
		}
		return false
	}
	if !cmp(gw, e.whopIn, wname) {
		return
	}
	if !cmp(gb, e.before, "before") {
		return
	}
	wp := e.prims
	if !eqs(gp, wp) {
		daemon = "primary"
		class = "wrong"
		if eqs(idents(gp), idents(wp)) {
			class = "arg"
		}
		return
	}
	if !cmp(ga, e.after, "after") {
		return
	}
	if !cmp(gx, e.whopOut, wname+"-exit") {
		return
	}
	if 0 < len(other) || !eqs(all, e.trace()) {
		return "phase", "all"
	}
	return "", ""
}

func msgKind(msg string) string {
	switch {
	case msg == "init":
		return "init"
	case strings.HasPrefix(msg, "set-"):
		return "setter"
	case arity(msg) == 0:
		return "getter"
	}
	return "user"
}

// sig names a failed observation of the (flavor, message) table. A table
// that got a component's first daemon from a form evaluated in the other
// package has one signature of its own (a listed finding).
func (k *monitor) sig(t int, msg, class, daemon, path string) string {
	if k.w.foreign[tm{t, msg}] {
		return "pkg=other fail=late-method-lost"
	}
	return sigFor(k.w.late[tm{t, msg}], class, daemon, msgClass(msg), path)
}

// judgeSend compares one observed send (trace, result, error) with the model.
func (k *monitor) judgeSend(what string, t int, msg, path string, e *expect, got []string, res slip.Object, err *sl.Err, checkResult bool) (ok bool) {
	x := k.x
	late := k.w.late[tm{t, msg}]
	mc := msgClass(msg)
	x.Cover("path:" + path)
	x.Cover("late:" + lateNames[late])
	x.Cover("msg:" + mc)
	x.Cover("msgkind:" + msgKind(msg))
	if k.w.foreign[tm{t, msg}] {
		x.Cover("send:table-with-late-daemon-from-other-package")
	}
	if !e.handled {
		x.Cover("send:unhandled")
	} else {
		x.Cover(fmt.Sprintf("send:flavors-contributing=%d", e.nFlavors))
		x.Cover(fmt.Sprintf("send:whoppers=%d", e.nWhoppers))
		x.Cover(fmt.Sprintf("send:befores=%d", len(e.before)))
		x.Cover(fmt.Sprintf("send:afters=%d", len(e.after)))
		x.Cover(fmt.Sprintf("send:primary=%s candidates=%d", e.primKind, e.primCand))
		if 0 < len(e.nested) {
			x.Cover(fmt.Sprintf("send:nested-sends=%d", len(e.nested)))
		}
		if 2 <= e.nFlavors {
			k.rich = true
			x.Cover("send:combined late=" + lateNames[late] + " path=" + path)
		}
	}
	x.CoverN("daemons-expected", e.nDaemons)
	x.CoverN("daemons-observed", len(got))
	if k.sample == nil && 2 <= e.nFlavors {
		k.sample = map[string]any{"flavor": t, "msg": msg, "path": path, "trace": got, "late": lateNames[late]}
	}
	sg := func(class, daemon string) string { return k.sig(t, msg, class, daemon, path) }
	desc := fmt.Sprintf("%s: (%s f%d :%s) late=%s", what, path, t, msg, lateNames[late])
	if e.errs {
		switch {
		case err == nil:
			k.fail(sg("error-lost", "-"), "%s returned %s although a daemon signals an error; model trace %v, ran %v", desc, sl.Show(res), e.trace(), got)
			return false
		case err.Internal:
			k.fail(sg("internal-fault", "-"), "%s => %s; model trace %v", desc, err, e.trace())
			return false
		}
		x.Cover("send:daemon-signals-error")
	} else if err != nil {
		if err.Internal {
			if e.handled {
				k.fail(sg("internal-fault", "-"), "%s => %s; model trace %v", desc, err, e.trace())
				return false
			}
			k.fail("fail=internal-fault in=unhandled-message", "%s => %s", desc, err)
			return false
		} else if e.handled {
			k.fail(sg("error", "-"), "%s => %s; model trace %v", desc, err, e.trace())
			return false
		}
		x.Cover("send:unhandled-error")
	}
	if !e.handled && err == nil && path != "send-if-handles" {
		k.fail("fail=no-error in=unhandled-message", "%s returned %s without signalling an error", desc, sl.Show(res))
		return false
	}
	class, daemon := judgeTrace(e, got)
	if class != "" {
		k.fail(sg(class, daemon), "%s ran %v, model says %v", desc, got, e.trace())
		return false
	}
	if checkResult && e.hasPrim && err == nil {
		if g, w := sl.Show(res), show(e.result); g != w {
			k.fail(sg("result", "-"), "%s returned %s, model says %s (trace %v)", desc, g, w, got)
			return false
		}
		x.Cover("result-checked")
	}
	return true
}

// resync copies the real instance variables into the model after a send the
// model did not predict, so that one failure is reported once.
func (k *monitor) resync(lv *live) {
	for n := range lv.m.vars {
		if v, has := lv.fi.SlotValue(slip.Symbol(n)); has {
			lv.m.vars[n] = sym(sl.Show(v))
		}
	}
}

// checkSlots compares the instance variables with the model.
func (k *monitor) checkSlots(what string, lv *live) {
	want := lv.m.varNames()
	var recd []string
	if !k.quiet && !lv.tainted {
		// the instance is still itself: self is the instance and it has
		// exactly the variables of its flavor
		self, _ := lv.fi.SlotValue(slip.Symbol("self"))
		var names []string
		for _, n := range lv.fi.SlotNames() {
			if n != "self" {
				names = append(names, n)
			}
		}
		sort.Strings(names)
		after := lv.after
		if after == "" {
			after = "no-failed-send"
		}
		if self != lv.obj || !eqs(names, want) {
			lv.tainted = true
			k.fail("fail=instance-clobbered after="+after, "%s: after a failed send (%s) the instance of f%d has self = %s and variables %v; "+
				"self must be the instance and the variables %v", what, after, lv.m.t, sl.Show(self), names, want)
			return
		}
		k.x.Cover("instance-intact after=" + after)
	}
	if lv.tainted {
		return
	}
	for _, n := range want {
		v, has := lv.fi.SlotValue(slip.Symbol(n))
		recd = append(recd, n+"="+sl.Show(v))
		if k.quiet {
			continue
		}
		if !has {
			k.fail("fail=var-missing", "%s: an instance of f%d has no variable %s (has %v)", what, lv.m.t, n, lv.fi.SlotNames())
			return
		}
		if g, w := sl.Show(v), show(lv.m.vars[n]); g != w {
			sig := "fail=var-value at=" + strings.SplitN(what, " ", 2)[0]
			if k.w.foreignFlavor(lv.m.t) {
				sig = "pkg=other fail=late-method-lost then=var-value"
			}
			k.fail(sig, "%s: variable %s of an instance of f%d is %s, model says %s", what, n, lv.m.t, g, w)
			return
		}
		k.x.Cover("slot-checked")
	}
	if strings.HasPrefix(what, "final after the") {
		k.record("slots|"+strconv.Itoa(lv.m.t)+"|"+what, "slots", strings.Join(recd, " "))
	}
}

// makeInst evaluates (make-instance 'f<t> ...), judges the :init daemons
// that ran and the initial variables.
func (k *monitor) makeInst(what string, t int, kv []kwarg) (*live, *sl.Err) {
	k.nInst++
	lv := &live{name: fmt.Sprintf("i%d", k.nInst)}
	src := "(make-instance '" + fname(k.pre, t)
	for _, a := range kv {
		src += fmt.Sprintf(" :%s %d", a.key, a.v)
	}
	src += ")"
	var plist val
	lv.m, plist = k.w.newInst(t, kv)
	e := k.w.send(lv.m, "init", plist)
	trace = trace[:0]
	obj, err := k.eval(src)
	got := append([]string{}, trace...)
	if err != nil {
		return nil, err
	}
	fi, ok := obj.(*flavors.Instance)
	if !ok {
		k.fail("fail=make-instance", "%s: %s returned %s", what, src, sl.Show(obj))
		return nil, &sl.Err{Class: "not-an-instance"}
	}
	lv.obj, lv.fi = obj, fi
	k.scope.Let(slip.Symbol(lv.name), obj)
	if what == "final" || what == "init-keyword" {
		var vs []string
		for _, n := range lv.m.varNames() {
			v, _ := fi.SlotValue(slip.Symbol(n))
			vs = append(vs, n+"="+sl.Show(v))
		}
		key := fmt.Sprintf("make|%d|%s|%v|#%d", t, what, kv, k.nMake[t])
		k.nMake[t]++
		k.record(key, "make-instance late="+lateNames[k.w.late[tm{t, "init"}]], strings.Join(got, " ")+" => "+strings.Join(vs, " "))
	}
	if k.quiet {
		return lv, nil
	}
	if what == "final" && len(kv) == 0 {
		for _, n := range lv.m.varNames() {
			at, givers := k.w.defaultSource(t, n)
			switch {
			case at < 0:
				k.x.Cover("default:no-flavor-gives-one")
			case at == 0:
				k.x.Cover(fmt.Sprintf("default:own givers=%d", givers))
			default:
				k.x.Cover(fmt.Sprintf("default:inherited from-precedence-index=%d givers=%d", at, givers))
			}
		}
	}
	if k.judgeSend(what+" make-instance", t, "init", "send", e, got, nil, nil, false) {
		k.checkSlots(what+" after make-instance", lv)
	} else {
		k.resync(lv)
	}
	return lv, nil
}

// evalGuarded evaluates form under ignore-errors, the Lisp-level handling of
// a failed send; a handled condition comes back as an *sl.Err.
func (k *monitor) evalGuarded(form string) (slip.Object, *sl.Err) {
	res, err := k.eval("(multiple-value-list (ignore-errors " + form + "))")
	if err != nil {
		return nil, err
	}
	l, _ := res.(slip.List)
	if len(l) == 2 && l[0] == nil {
		if cond, ok := l[1].(slip.Instance); ok {
			if ce := sl.Classify(cond); ce != nil {
				ce.Class = "handled:" + ce.Class
				return nil, ce
			}
		}
	}
	if 0 < len(l) {
		return l[0], nil
	}
	return nil, nil
}

// failSend sends something that cannot succeed (unknown message, wrong
// number of arguments) to a kept instance.
func (k *monitor) failSend(lv *live, kind, form string, mustFail bool) {
	if lv.tainted {
		return
	}
	trace = trace[:0]
	res, err := k.evalGuarded(form)
	got := append([]string{}, trace...)
	lv.after = kind
	k.forms = append(k.forms, "["+strings.ReplaceAll(form, lv.name, fmt.Sprintf("f%d-instance", lv.m.t))+"]")
	switch {
	case err != nil && err.Internal:
		k.fail("fail=internal-fault in="+kind, "%s => %s", form, err)
		lv.tainted = true
	case err != nil:
		k.x.Cover("failed-send:" + kind + " signalled")
	case mustFail:
		k.fail("fail=no-error in="+kind, "%s returned %s without signalling an error", form, sl.Show(res))
	default:
		k.x.Cover("failed-send:" + kind + " returned normally")
	}
	if kind == "unhandled-message" && 0 < len(got) {
		k.fail("fail=daemons-ran in="+kind, "%s ran %v", form, got)
	}
}

// sweepBoth sends every message of the case to one instance through both
// paths and compares its variables afterwards.
func (k *monitor) sweepBoth(what string, lv *live) {
	for _, msg := range messageUniverse(k.c) {
		k.send(what, lv, msg, "send")
		k.send(what, lv, msg, "bound")
	}
	k.checkSlots(what, lv)
}

// victimBlock: failed sends to a kept instance, each followed by the full
// sweep: the instance must be what the model says, i.e. unchanged by the
// failed send beyond what daemons that ran did.
func (k *monitor) victimBlock(t int) {
	lv, err := k.makeInst("victim", t, nil)
	if err != nil {
		return
	}
	probe, _ := k.w.newInst(t, nil)
	n := 0
	for _, msg := range []string{"m", "n"} {
		// these messages have no accessor primaries: no daemon changes a variable
		if k.w.send(probe, msg, 7).handled {
			k.failSend(lv, "wrong-argument-count", "(send "+lv.name+" :"+msg+")", false)
			k.failSend(lv, "wrong-argument-count", "(send "+lv.name+" :"+msg+" 7 8)", false)
			n++
		}
	}
	if 0 < n {
		k.sweepBoth("after-wrong-argument-count", lv)
	}
	k.failSend(lv, "unhandled-message", "(send "+lv.name+" :c11-no-such-message 7)", true)
	k.checkSlots("after-unhandled-message directly", lv)
	k.failSend(lv, "unhandled-message", "(send "+lv.name+" :c11-no-such-message)", true)
	k.sweepBoth("after-unhandled-message", lv)
	k.x.Cover("victim-blocks")
}

func (k *monitor) send(what string, lv *live, msg, path string) {
	if lv.tainted {
		return
	}
	var arg val
	if 0 < arity(msg) {
		arg = 7
	}
	probe := *lv.m
	probe.vars = map[string]val{}
	for n, v := range lv.m.vars {
		probe.vars[n] = v
	}
	t := lv.m.t
	unhandled := !k.w.send(&probe, msg, arg).handled
	if unhandled && !k.quiet {
		k.x.Cover("send:unhandled-message-to-a-kept-instance")
	}
	e := k.w.send(lv.m, msg, arg)
	trace = trace[:0]
	var (
		res slip.Object
		err *sl.Err
	)
	switch path {
	case "send", "send-if-handles", "setf":
		src := "(send " + lv.name + " :" + msg
		if path == "send-if-handles" {
			src = "(send " + lv.name + " :send-if-handles :" + msg
		}
		if 0 < arity(msg) {
			src += " 7"
		}
		src += ")"
		if path == "setf" {
			// (setf (send i :v) x) is documented to send :set-v
			src = "(setf (send " + lv.name + " :" + strings.TrimPrefix(msg, "set-") + ") 7)"
		}
		if e.errs || (unhandled && path != "send-if-handles") {
			res, err = k.evalGuarded(src)
		} else {
			res, err = k.eval(src)
		}
	default:
		bindings := slip.NewScope()
		if 0 < arity(msg) {
			bindings.Let(slip.Symbol("a"), slip.Fixnum(7))
		}
		err = sl.Catch(func() {
			res = lv.fi.BoundReceive(k.scope, ":"+msg, bindings, 0)
		})
	}
	got := append([]string{}, trace...)
	if e.errs {
		lv.after = "daemon-signals-error"
	}
	if unhandled && path != "send-if-handles" {
		lv.after = "unhandled-message"
	}
	if what == "final" {
		key := fmt.Sprintf("send|%d|%s|%s|#%d", t, msg, path, k.nSend[tm{t, msg + path}])
		k.nSend[tm{t, msg + path}]++
		v := strings.Join(got, " ")
		switch {
		case unhandled:
		case err != nil:
			v += " => error"
		default:
			v += " => " + sl.Show(res)
		}
		k.record(key, "send late="+lateNames[k.w.late[tm{t, msg}]]+" path="+path, v)
	}
	if k.quiet {
		return
	}
	if unhandled && path == "send-if-handles" {
		// "sends to the instance if the instance has the method": nothing happens
		switch {
		case err != nil:
			k.fail(k.sig(t, msg, "error-for-unhandled", "-", path), "(send f%d-instance :send-if-handles :%s ..) => %s; the flavor does not handle the message", t, msg, err)
		case 0 < len(got) || res != nil:
			k.fail(k.sig(t, msg, "ran-for-unhandled", "-", path), "(send f%d-instance :send-if-handles :%s ..) ran %v and returned %s; the flavor does not handle the message", t, msg, got, sl.Show(res))
		default:
			k.x.Cover("route:send-if-handles unhandled, nothing ran")
		}
		return
	}
	if path != "send" && path != "bound" {
		k.x.Cover("route:" + path + " " + msgKind(msg))
	}
	if !k.judgeSend(what, t, msg, path, e, got, res, err, path != "setf") {
		k.resync(lv)
	}
}

// handledP asks the instance itself whether it handles msg.
func (k *monitor) handledP(lv *live, msg string, handled bool) {
	if lv.tainted {
		return
	}
	res, err := k.eval("(send " + lv.name + " :operation-handled-p :" + msg + ")")
	k.record(fmt.Sprintf("handled-p|%d|%s", lv.m.t, msg), "operation-handled-p", sl.Show(res))
	if k.quiet {
		return
	}
	switch {
	case err != nil:
		k.fail(k.sig(lv.m.t, msg, "error", "-", "operation-handled-p"), "(send f%d-instance :operation-handled-p :%s) => %s", lv.m.t, msg, err)
	case (res != nil) != handled:
		k.fail(k.sig(lv.m.t, msg, "wrong-answer", "-", "operation-handled-p"), "(send f%d-instance :operation-handled-p :%s) => %s, the model says handled = %v",
			lv.m.t, msg, sl.Show(res), handled)
	default:
		k.x.Cover(fmt.Sprintf("route:operation-handled-p handled=%v", handled))
	}
}

// routes reaches the method tables of one instance through the other ways
// slip offers: :operation-handled-p, :send-if-handles, (setf (send ..)) and
// :which-operations.
func (k *monitor) routes(what string, lv *live) {
	if lv.tainted {
		return
	}
	universe := append(messageUniverse(k.c), "c11-no-such-message")
	handled := map[string]bool{}
	for _, msg := range universe {
		probe := *lv.m
		probe.vars = map[string]val{}
		for n, v := range lv.m.vars {
			probe.vars[n] = v
		}
		var arg val
		if 0 < arity(msg) {
			arg = 7
		}
		handled[msg] = k.w.send(&probe, msg, arg).handled
		k.handledP(lv, msg, handled[msg])
		if msg == "init" || msg == "c11-no-such-message" {
			continue
		}
		k.send(what, lv, msg, "send-if-handles")
		if strings.HasPrefix(msg, "set-") {
			k.send(what, lv, msg, "setf")
		}
	}
	res, err := k.eval("(send " + lv.name + " :which-operations)")
	if err != nil {
		k.fail("fail=error path=which-operations", "(send f%d-instance :which-operations) => %s", lv.m.t, err)
		return
	}
	listed := map[string]bool{}
	if l, ok := res.(slip.List); ok {
		for _, o := range l {
			listed[strings.TrimPrefix(sl.Show(o), ":")] = true
		}
	}
	var rec []string
	for _, msg := range universe {
		rec = append(rec, fmt.Sprintf("%s=%v", msg, listed[msg]))
		if k.quiet {
			continue
		}
		if listed[msg] != handled[msg] {
			k.fail(k.sig(lv.m.t, msg, "wrong-answer", "-", "which-operations"), "(send f%d-instance :which-operations) lists :%s = %v, the model says handled = %v (the list: %s)",
				lv.m.t, msg, listed[msg], handled[msg], sl.Show(res))
			return
		}
		k.x.Cover(fmt.Sprintf("route:which-operations listed=%v", listed[msg]))
	}
	k.record(fmt.Sprintf("which-operations|%d", lv.m.t), "which-operations", strings.Join(rec, " "))
}

func (k *monitor) checkFlavor(t int) {
	name := fname(k.pre, t)
	p := k.w.prec(t)
	var want []string
	for _, f := range p {
		want = append(want, fname(k.pre, f))
	}
	want = append(want, "vanilla-flavor")
	// class-precedence
	res, err := k.eval("(class-precedence '" + name + ")")
	if err != nil {
		k.fail("fail=precedence", "(class-precedence f%d) => %s", t, err)
	} else {
		var got []string
		if l, ok := res.(slip.List); ok {
			for _, e := range l {
				got = append(got, sl.Show(e))
			}
		}
		for 0 < len(got) && (got[len(got)-1] == "t" || got[len(got)-1] == "instance") {
			got = got[:len(got)-1]
		}
		k.record("precedence|"+strconv.Itoa(t), "precedence", strings.Join(got, " "))
		if !eqs(got, want) {
			k.fail("fail=precedence", "(class-precedence f%d) => %v, model says %v", t, got, want)
		} else if !k.quiet {
			k.x.Cover(fmt.Sprintf("precedence-checked len=%d", len(p)))
			if k.w.shared[t] {
				k.x.Cover("precedence-checked a-flavor-reached-twice")
			}
		}
	}
	// describe-flavor
	cf := flavors.Find(name)
	if cf == nil {
		k.fail("fail=find-flavor", "flavor f%d is not registered after its defflavor", t)
		return
	}
	var text string
	if derr := sl.Catch(func() { text = string(cf.Describe(nil, 0, 1000, false)) }); derr != nil {
		k.fail("fail=describe what=error", "describe-flavor f%d => %s", t, derr)
		return
	}
	sect := ""
	vars := map[string]string{}
	keys := map[string]string{}
	var inherits []string
	for _, line := range strings.Split(text, "\n") {
		switch {
		case strings.HasPrefix(line, "  Inherits:"):
			inherits = strings.Fields(strings.TrimPrefix(line, "  Inherits:"))
		case strings.HasPrefix(line, "    "):
			kv := strings.SplitN(strings.TrimSpace(line), " = ", 2)
			if len(kv) == 2 {
				v := strings.TrimSuffix(kv[1], " (initable)")
				if sect == "Variables" {
					vars[kv[0]] = v
				} else if strings.HasPrefix(sect, "Keywords") {
					keys[kv[0]] = v
				}
			}
		case strings.HasPrefix(line, "  "):
			sect = strings.TrimSuffix(strings.TrimSpace(line), ":")
		}
	}
	k.record("describe|"+strconv.Itoa(t), "describe-flavor", fmt.Sprint(inherits, vars, keys))
	if k.quiet {
		return
	}
	if !eqs(inherits, want[1:]) {
		k.fail("fail=describe what=inherits", "describe-flavor f%d lists components %v, model says %v", t, inherits, want[1:])
	}
	in, _ := k.w.newInst(t, nil)
	wantVars := map[string]string{}
	for n, v := range in.vars {
		wantVars[n] = show(v)
	}
	if fmt.Sprint(vars) != fmt.Sprint(wantVars) {
		k.fail("fail=describe what=variable-defaults", "describe-flavor f%d lists variables %v, model says %v", t, vars, wantVars)
	}
	wantKeys := map[string]string{}
	for n, v := range k.w.keys(t) {
		wantKeys[":"+n] = show(v)
	}
	if fmt.Sprint(keys) != fmt.Sprint(wantKeys) {
		k.fail("fail=describe what=keyword-defaults", "describe-flavor f%d lists keywords %v, model says %v", t, keys, wantKeys)
	}
	for n := range k.w.keys(t) {
		at, givers := k.w.keySource(t, n)
		if at == 0 {
			k.x.Cover(fmt.Sprintf("keyword-default:own givers=%d", givers))
		} else {
			k.x.Cover(fmt.Sprintf("keyword-default:inherited from-precedence-index=%d givers=%d", at, givers))
		}
	}
	k.x.Cover("describe-checked")
}

func newMonitor(x *fw.Ctx, c *Case, quiet bool) *monitor {
	caseSerial++
	return &monitor{x: x, c: c, w: newWorld(c), scope: slip.NewScope(),
		quiet: quiet, rec: map[string]string{}, recLbl: map[string]string{}, nSend: map[tm]int{}, nMake: map[int]int{},
		early: map[int]*live{}, pre: fmt.Sprintf("c%dn%d", x.Index, caseSerial)}
}

// runSteps evaluates the history; false when a form could not be defined.
func (k *monitor) runSteps(steps []Step) bool {
	x, c := k.x, k.c
	cover := func(key string) {
		if !k.quiet {
			x.Cover(key)
		}
	}
	for si, st := range steps {
		switch st.Op {
		case "flavor", "flavor-err":
			if st.F < 0 || len(c.Flavors) <= st.F {
				return false
			}
			src := flavorSrc(k.pre, st.F, &c.Flavors[st.F])
			k.forms = append(k.forms, strings.ReplaceAll(src, k.pre, ""))
			_, err := k.eval(src)
			if st.Op == "flavor-err" {
				switch {
				case err == nil:
					k.fail("fail=requirement-not-enforced", "step %d %s was accepted although a requirement of an abstract component is not met", si, src)
				case err.Internal:
					k.fail("fail=define-error form=defflavor", "step %d %s => %s", si, src, err)
				default:
					cover("form:defflavor-rejected-for-requirement")
				}
				continue
			}
			if err != nil {
				k.fail("fail=define-error form=defflavor", "step %d %s => %s", si, src, err)
				return false
			}
			k.w.defFlavor(st.F)
			cover("form:defflavor")
			fl := &c.Flavors[st.F]
			if 0 < len(fl.Comps) && (fl.GetAll || fl.SetAll || fl.IniAll) {
				cover("form:bare-accessor-option-with-components")
			}
			if 0 < len(fl.Incl) {
				cover("form:included-flavors")
			}
			if fl.Abstract {
				cover("form:abstract-flavor")
			}
			if 0 < len(fl.ReqVars)+len(fl.ReqFlavors) {
				cover("form:required-variables/flavors")
			}
		case "method":
			if st.M < 0 || len(c.Methods) <= st.M {
				return false
			}
			m := c.Methods[st.M]
			ver := k.w.meth[mkey{m.F, m.Kind, m.Msg}] + 1
			if 1 < ver {
				cover("form:redefinition")
			}
			src := methodSrc(k.pre, m, ver)
			label := strings.ReplaceAll(src, k.pre, "")
			if st.Pkg != 0 {
				label = "[in package c11q:] " + label
			}
			k.forms = append(k.forms, label)
			if _, err := k.evalIn(st.Pkg, src); err != nil {
				form := "defmethod"
				if m.Kind == "whopper" {
					form = "defwhopper"
				}
				k.fail("fail=define-error form="+form, "step %d %s => %s", si, src, err)
				return false
			}
			k.w.defMethod(m, st.Pkg)
			cover("form:" + m.Kind)
			if m.Stop {
				cover("form:whopper-without-continue")
			}
			if m.Relay && 0 < arity(m.Msg) && (m.Kind == "whopper" || m.Kind == "before") {
				cover("form:relaying-" + m.Kind)
			}
			if m.Twice && m.Kind == "whopper" && !m.Stop && !m.Err {
				cover("form:whopper-continuing-twice")
			}
			if st.Pkg != 0 {
				cover("form:method-defined-in-other-package")
			}
		case "method-err", "flavor-dup", "flavor-bad":
			// a form that has to fail; the model does not change
			if st.F < 0 || len(c.Flavors) <= st.F {
				return false
			}
			var src string
			switch st.Op {
			case "method-err":
				ll := "()"
				if 0 < arity(st.Msg) {
					ll = "(a)"
				}
				src = fmt.Sprintf(`(defmethod (%s :c11-bogus :%s) %s (c11-tr "z%d"))`, fname(k.pre, st.F), st.Msg, ll, st.F)
			case "flavor-dup":
				src = fmt.Sprintf(`(defflavor %s ((v0 990) (v1 991) (v2 992) (u0 993)) () :gettable-instance-variables :settable-instance-variables :initable-instance-variables)`,
					fname(k.pre, st.F))
			default:
				fl := &c.Flavors[st.F]
				switch st.Bad {
				case "unknown-component":
					src = flavorSrcX(k.pre, st.F, fl, "c11-nowhere", "")
				case "unknown-included":
					src = flavorSrcX(k.pre, st.F, fl, "", " :settable-instance-variables (:included-flavors c11-nowhere)")
				case "required-method":
					src = flavorSrcX(k.pre, st.F, fl, "", " :settable-instance-variables (:required-methods :c11-zork)")
				default:
					src = flavorSrcX(k.pre, st.F, fl, "", " :settable-instance-variables :c11-bogus-option")
				}
			}
			k.forms = append(k.forms, "[fails:] "+strings.ReplaceAll(src, k.pre, ""))
			_, err := k.eval(src)
			switch {
			case err == nil:
				// not what the statement is about: the rest of the case has no model
				cover("failing-form:accepted op=" + st.Op)
				k.abandoned = true
				return false
			case err.Internal:
				k.fail("fail=internal-fault form="+st.Op, "step %d %s => %s", si, src, err)
				return false
			}
			cover("failing-form:signalled op=" + st.Op + " " + st.Bad)
		case "inst":
			if k.quiet {
				continue
			}
			k.forms = append(k.forms, fmt.Sprintf("[make f%d]", st.F))
			lv, err := k.makeInst("mid-history", st.F, nil)
			if err != nil {
				k.fail("fail=define-error form=make-instance", "step %d make-instance of f%d => %s", si, st.F, err)
				return false
			}
			k.early[st.F] = lv
			cover("form:mid-history-instance")
		case "send":
			if k.quiet {
				continue
			}
			k.forms = append(k.forms, fmt.Sprintf("[send f%d :%s]", st.F, st.Msg))
			if lv := k.early[st.F]; lv != nil {
				k.send("mid-history", lv, st.Msg, "send")
				cover("form:mid-history-send")
			}
		}
	}
	return true
}

// decoy defines every flavor name of the case with another definition
// (components reversed, other variables and defaults, daemons of every kind
// with z markers), makes an instance of each and removes the flavors again
// with undefflavor: the history that follows defines the names anew and
// nothing of the first definitions may show.
func (k *monitor) decoy() bool {
	c := k.c
	run := func(src string) bool {
		if _, err := k.eval(src); err != nil {
			k.fail("fail=define-error form=decoy-prelude", "%s => %s", src, err)
			return false
		}
		return true
	}
	for f := range c.Flavors {
		name := fname(k.pre, f)
		var comps []string
		for i := len(c.Flavors[f].Comps) - 1; 0 <= i; i-- {
			if cp := c.Flavors[f].Comps[i]; cp < f {
				comps = append(comps, fname(k.pre, cp))
			}
		}
		forms := []string{
			fmt.Sprintf(`(defflavor %s ((v0 %d) (v1 %d) (u0 %d)) (%s) :gettable-instance-variables :settable-instance-variables :initable-instance-variables (:default-init-plist (:k0 %d)))`,
				name, 9000+10*f, 9001+10*f, 9002+10*f, strings.Join(comps, " "), 9003+10*f),
			fmt.Sprintf(`(defmethod (%s :before :m) (a) (c11-tr "zb%d"))`, name, f),
			fmt.Sprintf(`(defmethod (%s :after :m) (a) (c11-tr "za%d"))`, name, f),
			fmt.Sprintf(`(defmethod (%s :m) (a) (c11-tr "zp%d") 'z)`, name, f),
			fmt.Sprintf(`(defwhopper (%s :n) (a) (c11-tr "zw%d") (continue-whopper a))`, name, f),
			fmt.Sprintf(`(defwhopper (%s :m) (a) (c11-tr "zw%d") (continue-whopper a))`, name, f),
			fmt.Sprintf(`(defmethod (%s :after :init) (pl) (c11-tr "zi%d"))`, name, f),
			fmt.Sprintf(`(defmethod (%s :before :v0) () (c11-tr "zg%d"))`, name, f),
			fmt.Sprintf(`(defmethod (%s :after :set-v1) (a) (c11-tr "zs%d"))`, name, f),
		}
		for _, src := range forms {
			if !run(src) {
				return false
			}
		}
		obj, err := k.eval("(make-instance '" + name + ")")
		if err != nil {
			k.fail("fail=define-error form=decoy-prelude", "make-instance of the first definition of f%d => %s", f, err)
			return false
		}
		if fi, ok := obj.(*flavors.Instance); ok {
			k.decoys = append(k.decoys, fi)
		}
	}
	k.forms = append(k.forms, fmt.Sprintf("[first definitions of f0..f%d with z daemons, one instance each]", len(c.Flavors)-1))
	for f := range c.Flavors {
		if flavors.Find(fname(k.pre, f)) == nil {
			continue // went with a flavor it inherited from
		}
		if !run("(undefflavor '" + fname(k.pre, f) + ")") {
			return false
		}
		k.forms = append(k.forms, fmt.Sprintf("(undefflavor 'f%d)", f))
	}
	for f := range c.Flavors {
		if flavors.Find(fname(k.pre, f)) != nil {
			k.fail("fail=define-error form=decoy-prelude", "f%d is still a flavor after its undefflavor", f)
			return false
		}
	}
	trace = trace[:0]
	k.x.Cover("form:redefined-after-undefflavor")
	return true
}

// finalSweep observes every flavor of the case after the history.
func (k *monitor) finalSweep() {
	x, c := k.x, k.c
	cover := func(key string) {
		if !k.quiet {
			x.Cover(key)
		}
	}
	universe := messageUniverse(c)
	for t := range c.Flavors {
		if !k.w.defined[t] {
			continue
		}
		k.checkFlavor(t)
		if c.Flavors[t].Abstract {
			_, err := k.eval("(make-instance '" + fname(k.pre, t) + ")")
			switch {
			case err == nil:
				k.fail("fail=abstract-flavor-instantiated", "(make-instance 'f%d) succeeded for an :abstract-flavor", t)
			case err.Internal:
				k.fail("fail=define-error form=make-instance", "make-instance of abstract f%d => %s", t, err)
			default:
				cover("abstract-flavor:make-instance-rejected")
			}
			continue
		}
		fresh, err := k.makeInst("final", t, nil)
		if err != nil {
			k.fail("fail=define-error form=make-instance", "make-instance of f%d => %s", t, err)
			continue
		}
		bound, _ := k.makeInst("final", t, nil)
		for _, msg := range universe {
			k.send("final", fresh, msg, "send")
			if bound != nil {
				k.send("final", bound, msg, "bound")
			}
			if lv := k.early[t]; lv != nil {
				k.send("final early-instance", lv, msg, "send")
			}
		}
		k.checkSlots("final after the sends", fresh)
		k.routes("final", fresh)
		k.checkSlots("final after the other routes", fresh)
		if bound != nil {
			k.checkSlots("final after the bound sends", bound)
		}
		if lv := k.early[t]; lv != nil {
			k.checkSlots("final early-instance after the sends", lv)
		}
		// init keywords: every variable and every inherited keyword is tried;
		// acceptance is demanded where the model says the keyword is inherited
		in, _ := k.w.newInst(t, nil)
		for _, v := range in.varNames() {
			must := k.w.mustAcceptVar(t, v)
			_, err := k.makeInst("init-keyword", t, []kwarg{{v, 55}})
			k.record(fmt.Sprintf("initkw|%d|%s", t, v), "init-keyword", fmt.Sprint(err == nil))
			switch {
			case err == nil:
				cover("init-keyword:var-accepted")
			case must:
				k.fail("fail=init-keyword-rejected kind=var", "(make-instance 'f%d :%s 55) => %s; the model says the variable is initable", t, v, err)
			default:
				cover("init-keyword:var-rejected(not required)")
			}
		}
		var ks []string
		for n := range k.w.keys(t) {
			ks = append(ks, n)
		}
		sort.Strings(ks)
		for _, n := range ks {
			_, err := k.makeInst("init-keyword", t, []kwarg{{n, 55}})
			k.record(fmt.Sprintf("initkw|%d|%s", t, n), "init-keyword", fmt.Sprint(err == nil))
			if err != nil {
				k.fail("fail=init-keyword-rejected kind=key", "(make-instance 'f%d :%s 55) => %s; the model says the keyword is inherited", t, n, err)
			} else {
				cover("init-keyword:key-accepted")
			}
		}
	}
	if k.quiet {
		return
	}
	// failed sends to a kept instance: every flavor of a template case, the
	// flavor with the longest precedence list of a seeded case
	best := -1
	for t := range c.Flavors {
		if !k.w.defined[t] || c.Flavors[t].Abstract {
			continue
		}
		if c.Tmpl != "" {
			k.victimBlock(t)
		} else if best < 0 || len(k.w.prec(best)) <= len(k.w.prec(t)) {
			best = t
		}
	}
	if 0 <= best {
		k.victimBlock(best)
	}
}

// referenceSteps is the reference order of the same forms: every flavor
// (lowest index first among those whose components exist) directly
// followed by all its methods, so that no method is ever defined after a
// flavor that inherits it. Definitions of one method keep their order.
func referenceSteps(c *Case) []Step {
	var out []Step
	done := make([]bool, len(c.Flavors))
	for n := 0; n < len(c.Flavors); n++ {
		pick := -1
		for f := range c.Flavors {
			if done[f] {
				continue
			}
			ok := true
			for _, d := range c.Flavors[f].deps() {
				ok = ok && done[d]
			}
			if ok {
				pick = f
				break
			}
		}
		if pick < 0 {
			break
		}
		done[pick] = true
		out = append(out, Step{Op: "flavor", F: pick})
		for _, st := range c.Steps {
			if st.Op == "method" && 0 <= st.M && st.M < len(c.Methods) && c.Methods[st.M].F == pick {
				out = append(out, st)
			}
		}
	}
	return out
}

func exec(x *fw.Ctx, c Case) {
	k := newMonitor(x, &c, false)
	defer sl.Reset()
	x.Cover(fmt.Sprintf("case:flavors=%d", len(c.Flavors)))
	x.Cover(fmt.Sprintf("case:methods=%d", len(c.Methods)))
	maxc := 0
	for _, f := range c.Flavors {
		if maxc < len(f.Comps) {
			maxc = len(f.Comps)
		}
	}
	x.Cover(fmt.Sprintf("case:max-components=%d", maxc))
	if c.Tmpl != "" {
		x.Cover("case:template")
	} else {
		x.Cover("case:seeded")
	}
	foreignCase := false
	for _, st := range c.Steps {
		foreignCase = foreignCase || st.Pkg != 0
	}
	failing := false
	for _, st := range c.Steps {
		failing = failing || st.Op == "method-err" || st.Op == "flavor-dup" || st.Op == "flavor-bad"
	}
	if foreignCase {
		x.Cover("case:with-methods-defined-from-another-package")
	} else {
		x.Cover("avoided:method-defined-while-another-package-is-current")
	}
	if failing {
		x.Cover("case:with-forms-that-have-to-fail")
	}
	if c.Decoy {
		x.Cover("case:names-defined-and-removed-once-before")
	}
	if foreignCase && otherPkg == nil {
		x.Fail("harness other-package-unavailable", "the package c11q could not be made")
		return
	}
	if c.Decoy && !k.decoy() {
		return
	}
	if !k.runSteps(c.Steps) {
		if k.abandoned {
			x.Trivial()
		}
		return
	}
	k.finalSweep()
	if !k.quiet {
		// the instances of the first definitions still answer (observed only)
		for _, fi := range k.decoys {
			trace = trace[:0]
			err := sl.Catch(func() { fi.Receive(k.scope, ":m", slip.List{slip.Fixnum(7)}, 0) })
			old := err == nil
			for _, m := range trace {
				old = old && strings.HasPrefix(m, "z")
			}
			if old {
				x.Cover("decoy:instance-of-a-removed-flavor still runs its own daemons only")
			} else {
				x.Cover("decoy:instance-of-a-removed-flavor changed (not judged)")
			}
		}
	}
	if c.Rel {
		// the relation monitor: the same forms in the reference order, under
		// other names, must give the same observations (no model involved)
		ref := newMonitor(x, &c, true)
		if ref.runSteps(referenceSteps(&c)) {
			ref.finalSweep()
			keys := make([]string, 0, len(k.rec))
			for key := range k.rec {
				keys = append(keys, key)
			}
			sort.Strings(keys)
			reported := map[string]bool{}
			for _, key := range keys {
				x.Cover("relation:observations-compared")
				rv, has := ref.rec[key]
				if has && rv == k.rec[key] {
					continue
				}
				lbl := k.recLbl[key]
				if reported[lbl] {
					continue
				}
				reported[lbl] = true
				if !has {
					rv = "<not observed>"
				}
				sig := "relation fail=history-dependent obs=" + lbl
				if foreignCase {
					sig = "pkg=other fail=late-method-lost relation"
				}
				k.fail(sig, "observation %s: this history gives [%s], the same forms in the reference order give [%s] || reference order: %s",
					key, k.rec[key], rv, ref.history())
			}
			x.Cover("relation:cases")
		} else {
			x.Cover("relation:reference-order-not-definable")
		}
	}
	if !k.rich {
		x.Trivial()
	}
	obs := map[string]any{"history": k.forms}
	if k.sample != nil {
		obs["sample"] = k.sample
	}
	x.Observe(obs)
}

var caseSerial int

func init() {
	fw.Register(fw.Spec[Case]{
		ID: "C11",
		Rule: "case = (flavor DAG of 1..5 flavors with up to 3 components each; per flavor: variables with and without defaults, listed and bare " +
			":gettable/:settable/:initable options (bare ones also on flavors with components), :default-init-plist/:init-keywords, in a minority " +
			":included-flavors, :abstract-flavor with met :required-instance-variables/:required-flavors; an assignment of primary/:before/:after/whopper " +
			"methods (whoppers that continue once, twice or not at all; whoppers and :before daemons that send the same message to self once more before going on; " +
			"in 1 case in 5 daemons that signal an error) on messages :m :n :init and accessor names; a history). " +
			"One kept instance per case (every flavor in template cases) receives failed sends under ignore-errors (wrong argument count, an unknown message twice), " +
			"each followed by the full sweep through both paths: self and the variable set must be the instance's own. " +
			"First block (independent of VERIF_SEED): every admissible order of the 2..7 forms of template hierarchies (siblings, reversed siblings, chain, two users of one base, " +
			"diamond, triple, deep sibling, crossed pairs) for each daemon kind, mixed kinds, :init and accessor messages, plain variable and keyword defaults over " +
			"3- and 4-level chains and diamonds, bare options, non-continuing, twice-continuing and relaying daemons, included flavors, abstract flavors with met and unmet requirements; " +
			"the first 24 orders of 8 of them once more with forms that have to fail in between (defmethod with an unknown daemon type, a second defflavor of a defined flavor, " +
			"a defflavor spoiled by an unknown component / unknown included flavor / unmet :required-methods / unknown option before the real one) and once more after a prelude that " +
			"defines, instantiates and undefflavors other definitions of the same names; 5 templates with methods defined while another package is current; " +
			"20 five-flavor hierarchies with a daemon of every kind on every flavor in 12 orders each; " +
			"then 8000 (quick) / 110000 (thorough) seeded DAGs with seeded admissible orders (uniform / methods early / flavors first), redefinitions, " +
			"instances made and messages sent in mid-history, and in minorities failing forms (1 in 6), the undefflavor prelude (1 in 8), methods defined from another package (1 in 12: a listed finding). " +
			"Every flavor of a case is observed at the end through send, through BoundReceive, and on the same instance through :send-if-handles, (setf (send ..)), " +
			":operation-handled-p and :which-operations, and judged by the reference model; for every template case and every second seeded case the same flavor and method forms are also " +
			"evaluated in the reference order (each flavor directly followed by its methods, no failing forms, no prelude) under other names and all final observations of the two histories are compared without the model. " +
			"distinct = distinct case JSON; non-trivial = at least one observed send combined daemons of 2 or more flavors. " +
			"avoided: methods defined while another package is current (listed finding pkg=other) stay in 1 seeded case in 12 and one template family. " +
			"not generated: :included-flavors on a flavor with components or on an abstract flavor and a flavor included twice (position not specified), :required-methods that are met, flavors defined in another package",
		N:        nCases,
		Gen:      gen,
		Exec:     exec,
		Init:     initWorker,
		Batch:    200,
		HangSecs: 120,
		Assumptions: []string{
			"the reference model in model.go is the specification (precedence = depth-first, first occurrence kept, vanilla-flavor last)",
			"the harness builtin c11-tr records daemons in the order they run",
			"instance variables are read through Instance.SlotValue, not through the method tables under test",
			"the bare :gettable/:settable/:initable options cover every variable of the flavor, inherited ones included (FuncDoc of defflavor: 'for each variable')",
			"an included flavor that is not a component otherwise follows the flavor that includes it",
			"continue-whopper may be called more than once by a whopper; each call runs everything the whopper wraps",
			"a form that signals an error (defmethod with an unknown daemon type, defflavor of a defined name or with an unknown component/option/unmet requirement) defines nothing; if slip accepts such a form the case is abandoned, not failed",
		},
	})
}
