// Package c11 monitors flavor inheritance and method combination: for a
// generated flavor DAG, method assignment and definition history, every
// defflavor/defmethod/defwhopper form is evaluated by the real interpreter in
// the given order, then messages are sent to instances of every flavor and
// the daemons that ran (recorded by a Go builtin the daemons call), the
// results, the instance variables, accepted init keywords, describe-flavor
// and class-precedence are compared with the reference model in model.go.
package c11

import (
	"fmt"
	"sort"
	"strconv"
	"strings"

	"github.com/ohler55/slip"
	"github.com/ohler55/slip/pkg/flavors"

	"verif/internal/fw"
	"verif/internal/sl"
)

// ---- the trace builtin --------------------------------------------------

var trace []string

type trFn struct {
	slip.Function
}

// Call appends the tag (and the rendered argument, if any) to the trace.
func (f *trFn) Call(s *slip.Scope, args slip.List, depth int) slip.Object {
	tag := "?"
	if 0 < len(args) {
		if ss, ok := args[0].(slip.String); ok {
			tag = string(ss)
		}
	}
	if 1 < len(args) {
		tag += ":" + sl.Show(args[1])
	}
	trace = append(trace, tag)
	return nil
}

func initWorker() {
	slip.Define(
		func(args slip.List) slip.Object {
			f := trFn{Function: slip.Function{Name: "c11-tr", Args: args}}
			f.Self = &f
			return &f
		},
		&slip.FuncDoc{
			Name: "c11-tr",
			Args: []*slip.DocArg{
				{Name: "tag", Type: "string"},
				{Name: "&optional"},
				{Name: "arg", Type: "object"},
			},
			Return: "nil",
			Text:   "records a marker in the C11 monitor's trace",
		}, &slip.UserPkg)
}

// ---- rendering the forms -------------------------------------------------

func fname(pre string, f int) string { return pre + "f" + strconv.Itoa(f) }

func flavorSrc(pre string, k int, f *Flavor) string {
	var b strings.Builder
	b.WriteString("(defflavor " + fname(pre, k) + " (")
	for i, v := range f.Vars {
		if 0 < i {
			b.WriteByte(' ')
		}
		if v.noDefault() {
			b.WriteString(v.name())
		} else if v.Nil {
			b.WriteString("(" + v.name() + " nil)")
		} else {
			fmt.Fprintf(&b, "(%s %d)", v.name(), v.D)
		}
	}
	b.WriteString(") (")
	for i, c := range f.Comps {
		if 0 < i {
			b.WriteByte(' ')
		}
		b.WriteString(fname(pre, c))
	}
	b.WriteString(")")
	opt := func(name string, all bool, list []string) {
		if all {
			b.WriteString(" " + name)
		} else if 0 < len(list) {
			b.WriteString(" (" + name + " " + strings.Join(list, " ") + ")")
		}
	}
	opt(":gettable-instance-variables", f.GetAll, f.Get)
	opt(":settable-instance-variables", f.SetAll, f.Set)
	opt(":initable-instance-variables", f.IniAll, f.Ini)
	var plist, kws []string
	for _, k := range f.Keys {
		if k.NoDef {
			kws = append(kws, fmt.Sprintf(":k%d", k.N))
		} else {
			plist = append(plist, fmt.Sprintf("(:k%d %d)", k.N, k.D))
		}
	}
	if 0 < len(plist) {
		b.WriteString(" (:default-init-plist " + strings.Join(plist, " ") + ")")
	}
	if 0 < len(kws) {
		b.WriteString(" (:init-keywords " + strings.Join(kws, " ") + ")")
	}
	if 0 < len(f.Incl) {
		b.WriteString(" (:included-flavors")
		for _, g := range f.Incl {
			b.WriteString(" " + fname(pre, g))
		}
		b.WriteString(")")
	}
	if f.Abstract {
		b.WriteString(" :abstract-flavor")
	}
	if 0 < len(f.ReqVars) {
		b.WriteString(" (:required-instance-variables " + strings.Join(f.ReqVars, " ") + ")")
	}
	if 0 < len(f.ReqFlavors) {
		b.WriteString(" (:required-flavors")
		for _, g := range f.ReqFlavors {
			b.WriteString(" " + fname(pre, g))
		}
		b.WriteString(")")
	}
	b.WriteString(")")
	return b.String()
}

func methodSrc(pre string, m Method, ver int) string {
	ll, a, ca := "()", "", ""
	if 0 < arity(m.Msg) {
		ll, a = "(a)", " a"
		ca = fmt.Sprintf(" (list %d a)", m.F)
	}
	id := fmt.Sprintf("%d.%d", m.F, ver)
	if m.Err {
		// the marker, then an error
		head := "(defmethod (" + fname(pre, m.F) + " :" + m.Kind + " :" + m.Msg + ")"
		switch m.Kind {
		case "whopper":
			head = "(defwhopper (" + fname(pre, m.F) + " :" + m.Msg + ")"
		case "primary":
			head = "(defmethod (" + fname(pre, m.F) + " :" + m.Msg + ")"
		}
		tag := map[string]string{"whopper": "w", "primary": "p", "before": "b", "after": "a"}[m.Kind]
		return fmt.Sprintf(`%s %s (c11-tr "%s%s"%s) (error "c11 %s%s") nil)`, head, ll, tag, id, a, tag, id)
	}
	switch m.Kind {
	case "whopper":
		if m.Stop {
			return fmt.Sprintf(`(defwhopper (%s :%s) %s (c11-tr "w%s"%s) (c11-tr "x%s") (list 's %d))`,
				fname(pre, m.F), m.Msg, ll, id, a, id, m.F)
		}
		return fmt.Sprintf(`(defwhopper (%s :%s) %s (c11-tr "w%s"%s) (let ((r (continue-whopper%s))) (c11-tr "x%s") (list 'w %d r)))`,
			fname(pre, m.F), m.Msg, ll, id, a, ca, id, m.F)
	case "primary":
		return fmt.Sprintf(`(defmethod (%s :%s) %s (c11-tr "p%s"%s) (list %d %d%s))`,
			fname(pre, m.F), m.Msg, ll, id, a, m.F, ver, a)
	}
	return fmt.Sprintf(`(defmethod (%s :%s :%s) %s (c11-tr "%s%s"%s))`,
		fname(pre, m.F), m.Kind, m.Msg, ll, m.Kind[:1], id, a)
}

// ---- the monitor ---------------------------------------------------------

type live struct {
	obj  slip.Object
	fi   *flavors.Instance
	m    *inst
	name string
	// after: the kind of the last failed send this instance received
	after string
	// tainted: the instance was found damaged; nothing more is judged on it
	tainted bool
}

type monitor struct {
	x        *fw.Ctx
	c        *Case
	w        *world
	pre      string
	scope    *slip.Scope
	forms    []string
	nInst    int
	rich     bool
	sample   map[string]any
	failures int
	// quiet: the reference-order run of the relation monitor: nothing is
	// judged against the model, observations are only recorded
	quiet bool
	// rec: what the final sweep observed, by observation key (model-free)
	rec    map[string]string
	recLbl map[string]string
	nSend  map[tm]int
	nMake  map[int]int
	early  map[int]*live
}

func (k *monitor) record(key, label, value string) {
	if k.rec != nil {
		k.rec[key] = strings.ReplaceAll(value, k.pre, "")
		k.recLbl[key] = label
	}
}

func (k *monitor) history() string { return strings.Join(k.forms, " ") }

func (k *monitor) fail(sig, format string, a ...any) {
	if k.quiet {
		return
	}
	k.failures++
	if 6 < k.failures {
		return
	}
	k.x.Fail(sig, "%s || history: %s", fmt.Sprintf(format, a...), k.history())
}

func (k *monitor) eval(src string) (slip.Object, *sl.Err) {
	return sl.Eval(k.scope, src)
}

func msgClass(msg string) string {
	if msg == "init" {
		return "vanilla"
	}
	return "user"
}

func sigFor(late int, class, daemon, mc, path string) string {
	switch {
	case late == lateMid:
		return fmt.Sprintf("late=mid fail=%s path=%s", class, path)
	case path == "bound" && class == "order" && daemon == "after":
		return "path=bound fail=order daemon=after"
	case daemon == "whopper3+" && class == "members":
		return "fail=members daemon=whopper3+ path=" + path
	case mc == "vanilla" && daemon == "primary":
		return "msg=vanilla fail=wrong daemon=primary path=" + path
	}
	return fmt.Sprintf("late=%s fail=%s daemon=%s msg=%s path=%s", lateNames[late], class, daemon, mc, path)
}

func ident(m string) string {
	if i := strings.IndexByte(m, ':'); 0 <= i {
		return m[:i]
	}
	return m
}

func idents(ms []string) []string {
	out := make([]string, len(ms))
	for i, m := range ms {
		out[i] = ident(m)
	}
	return out
}

func eqs(a, b []string) bool {
	if len(a) != len(b) {
		return false
	}
	for i := range a {
		if a[i] != b[i] {
			return false
		}
	}
	return true
}

func sameSet(a, b []string) bool {
	a = append([]string{}, a...)
	b = append([]string{}, b...)
	sort.Strings(a)
	sort.Strings(b)
	return eqs(a, b)
}

// judgeTrace compares the daemons that ran with the model, kind by kind.
func judgeTrace(e *expect, got []string) (class, daemon string) {
	var gw, gb, gp, ga, gx, other []string
	for _, m := range got {
		switch m[0] {
		case 'w':
			gw = append(gw, m)
		case 'b':
			gb = append(gb, m)
		case 'p':
			gp = append(gp, m)
		case 'a':
			ga = append(ga, m)
		case 'x':
			gx = append(gx, m)
		default:
			other = append(other, m)
		}
	}
	if e.stopped && eqs(gw, e.whopIn) && 0 < len(gb)+len(gp)+len(ga) {
		return "ran-past-whopper", "whopper-without-continue"
	}
	wname := "whopper"
	if 3 <= e.nWhoppers {
		wname = "whopper3+"
	}
	cmp := func(g, w []string, name string) bool {
		if eqs(g, w) {
			return true
		}
		daemon = name
		switch {
		case !sameSet(idents(g), idents(w)):
			class = "members"
		case !eqs(idents(g), idents(w)):
			class = "order"
		default:
			class = "arg"
		}
		return false
	}
	if !cmp(gw, e.whopIn, wname) {
		return
	}
	if !cmp(gb, e.before, "before") {
		return
	}
	var wp []string
	if e.primary != "" {
		wp = []string{e.primary}
	}
	if !eqs(gp, wp) {
		daemon = "primary"
		class = "wrong"
		if eqs(idents(gp), idents(wp)) {
			class = "arg"
		}
		return
	}
	if !cmp(ga, e.after, "after") {
		return
	}
	if !cmp(gx, e.whopOut, wname+"-exit") {
		return
	}
	if 0 < len(other) || !eqs(got, e.trace()) {
		return "phase", "all"
	}
	return "", ""
}

// judgeSend compares one observed send (trace, result, error) with the model.
func (k *monitor) judgeSend(what string, t int, msg, path string, e *expect, got []string, res slip.Object, err *sl.Err, checkResult bool) (ok bool) {
	x := k.x
	late := k.w.late[tm{t, msg}]
	mc := msgClass(msg)
	x.Cover("path:" + path)
	x.Cover("late:" + lateNames[late])
	x.Cover("msg:" + mc)
	if !e.handled {
		x.Cover("send:unhandled")
	} else {
		x.Cover(fmt.Sprintf("send:flavors-contributing=%d", e.nFlavors))
		x.Cover(fmt.Sprintf("send:whoppers=%d", e.nWhoppers))
		if 2 <= e.nFlavors {
			k.rich = true
			x.Cover("send:combined late=" + lateNames[late] + " path=" + path)
		}
	}
	x.CoverN("daemons-expected", e.nDaemons)
	x.CoverN("daemons-observed", len(got))
	if k.sample == nil && 2 <= e.nFlavors {
		k.sample = map[string]any{"flavor": t, "msg": msg, "path": path, "trace": got, "late": lateNames[late]}
	}
	desc := fmt.Sprintf("%s: (%s f%d :%s) late=%s", what, path, t, msg, lateNames[late])
	if e.errs {
		switch {
		case err == nil:
			k.fail(sigFor(late, "error-lost", "-", mc, path), "%s returned %s although a daemon signals an error; model trace %v, ran %v", desc, sl.Show(res), e.trace(), got)
			return false
		case err.Internal:
			k.fail(sigFor(late, "internal-fault", "-", mc, path), "%s => %s; model trace %v", desc, err, e.trace())
			return false
		}
		x.Cover("send:daemon-signals-error")
	} else if err != nil {
		if err.Internal {
			if e.handled {
				k.fail(sigFor(late, "internal-fault", "-", mc, path), "%s => %s; model trace %v", desc, err, e.trace())
				return false
			}
			k.fail("fail=internal-fault in=unhandled-message", "%s => %s", desc, err)
			return false
		} else if e.handled {
			k.fail(sigFor(late, "error", "-", mc, path), "%s => %s; model trace %v", desc, err, e.trace())
			return false
		}
		x.Cover("send:unhandled-error")
	}
	if !e.handled && err == nil {
		k.fail("fail=no-error in=unhandled-message", "%s returned %s without signalling an error", desc, sl.Show(res))
		return false
	}
	class, daemon := judgeTrace(e, got)
	if class != "" {
		k.fail(sigFor(late, class, daemon, mc, path), "%s ran %v, model says %v", desc, got, e.trace())
		return false
	}
	if checkResult && e.hasPrim && err == nil {
		if g, w := sl.Show(res), show(e.result); g != w {
			k.fail(sigFor(late, "result", "-", mc, path), "%s returned %s, model says %s (trace %v)", desc, g, w, got)
			return false
		}
		x.Cover("result-checked")
	}
	return true
}

// resync copies the real instance variables into the model after a send the
// model did not predict, so that one failure is reported once.
func (k *monitor) resync(lv *live) {
	for n := range lv.m.vars {
		if v, has := lv.fi.SlotValue(slip.Symbol(n)); has {
			lv.m.vars[n] = sym(sl.Show(v))
		}
	}
}

// checkSlots compares the instance variables with the model.
func (k *monitor) checkSlots(what string, lv *live) {
	want := lv.m.varNames()
	var recd []string
	if !k.quiet && !lv.tainted {
		// the instance is still itself: self is the instance and it has
		// exactly the variables of its flavor
		self, _ := lv.fi.SlotValue(slip.Symbol("self"))
		var names []string
		for _, n := range lv.fi.SlotNames() {
			if n != "self" {
				names = append(names, n)
			}
		}
		sort.Strings(names)
		after := lv.after
		if after == "" {
			after = "no-failed-send"
		}
		if self != lv.obj || !eqs(names, want) {
			lv.tainted = true
			k.fail("fail=instance-clobbered after="+after, "%s: after a failed send (%s) the instance of f%d has self = %s and variables %v; "+
				"self must be the instance and the variables %v", what, after, lv.m.t, sl.Show(self), names, want)
			return
		}
		k.x.Cover("instance-intact after=" + after)
	}
	if lv.tainted {
		return
	}
	for _, n := range want {
		v, has := lv.fi.SlotValue(slip.Symbol(n))
		recd = append(recd, n+"="+sl.Show(v))
		if k.quiet {
			continue
		}
		if !has {
			k.fail("fail=var-missing", "%s: an instance of f%d has no variable %s (has %v)", what, lv.m.t, n, lv.fi.SlotNames())
			return
		}
		if g, w := sl.Show(v), show(lv.m.vars[n]); g != w {
			k.fail("fail=var-value at="+strings.SplitN(what, " ", 2)[0], "%s: variable %s of an instance of f%d is %s, model says %s", what, n, lv.m.t, g, w)
			return
		}
		k.x.Cover("slot-checked")
	}
	if strings.HasPrefix(what, "final after the") {
		k.record("slots|"+strconv.Itoa(lv.m.t)+"|"+what, "slots", strings.Join(recd, " "))
	}
}

// makeInst evaluates (make-instance 'f<t> ...), judges the :init daemons
// that ran and the initial variables.
func (k *monitor) makeInst(what string, t int, kv []kwarg) (*live, *sl.Err) {
	k.nInst++
	lv := &live{name: fmt.Sprintf("i%d", k.nInst)}
	src := "(make-instance '" + fname(k.pre, t)
	for _, a := range kv {
		src += fmt.Sprintf(" :%s %d", a.key, a.v)
	}
	src += ")"
	var plist val
	lv.m, plist = k.w.newInst(t, kv)
	e := k.w.send(lv.m, "init", plist)
	trace = trace[:0]
	obj, err := k.eval(src)
	got := append([]string{}, trace...)
	if err != nil {
		return nil, err
	}
	fi, ok := obj.(*flavors.Instance)
	if !ok {
		k.fail("fail=make-instance", "%s: %s returned %s", what, src, sl.Show(obj))
		return nil, &sl.Err{Class: "not-an-instance"}
	}
	lv.obj, lv.fi = obj, fi
	k.scope.Let(slip.Symbol(lv.name), obj)
	if what == "final" || what == "init-keyword" {
		var vs []string
		for _, n := range lv.m.varNames() {
			v, _ := fi.SlotValue(slip.Symbol(n))
			vs = append(vs, n+"="+sl.Show(v))
		}
		key := fmt.Sprintf("make|%d|%s|%v|#%d", t, what, kv, k.nMake[t])
		k.nMake[t]++
		k.record(key, "make-instance late="+lateNames[k.w.late[tm{t, "init"}]], strings.Join(got, " ")+" => "+strings.Join(vs, " "))
	}
	if k.quiet {
		return lv, nil
	}
	if k.judgeSend(what+" make-instance", t, "init", "send", e, got, nil, nil, false) {
		k.checkSlots(what+" after make-instance", lv)
	} else {
		k.resync(lv)
	}
	return lv, nil
}

// evalGuarded evaluates form under ignore-errors, the Lisp-level handling of
// a failed send; a handled condition comes back as an *sl.Err.
func (k *monitor) evalGuarded(form string) (slip.Object, *sl.Err) {
	res, err := k.eval("(multiple-value-list (ignore-errors " + form + "))")
	if err != nil {
		return nil, err
	}
	l, _ := res.(slip.List)
	if len(l) == 2 && l[0] == nil {
		if cond, ok := l[1].(slip.Instance); ok {
			if ce := sl.Classify(cond); ce != nil {
				ce.Class = "handled:" + ce.Class
				return nil, ce
			}
		}
	}
	if 0 < len(l) {
		return l[0], nil
	}
	return nil, nil
}

// failSend sends something that cannot succeed (unknown message, wrong
// number of arguments) to a kept instance.
func (k *monitor) failSend(lv *live, kind, form string, mustFail bool) {
	if lv.tainted {
		return
	}
	trace = trace[:0]
	res, err := k.evalGuarded(form)
	got := append([]string{}, trace...)
	lv.after = kind
	k.forms = append(k.forms, "["+strings.ReplaceAll(form, lv.name, fmt.Sprintf("f%d-instance", lv.m.t))+"]")
	switch {
	case err != nil && err.Internal:
		k.fail("fail=internal-fault in="+kind, "%s => %s", form, err)
		lv.tainted = true
	case err != nil:
		k.x.Cover("failed-send:" + kind + " signalled")
	case mustFail:
		k.fail("fail=no-error in="+kind, "%s returned %s without signalling an error", form, sl.Show(res))
	default:
		k.x.Cover("failed-send:" + kind + " returned normally")
	}
	if kind == "unhandled-message" && 0 < len(got) {
		k.fail("fail=daemons-ran in="+kind, "%s ran %v", form, got)
	}
}

// sweepBoth sends every message of the case to one instance through both
// paths and compares its variables afterwards.
func (k *monitor) sweepBoth(what string, lv *live) {
	for _, msg := range messageUniverse(k.c) {
		k.send(what, lv, msg, "send")
		k.send(what, lv, msg, "bound")
	}
	k.checkSlots(what, lv)
}

// victimBlock: failed sends to a kept instance, each followed by the full
// sweep: the instance must be what the model says, i.e. unchanged by the
// failed send beyond what daemons that ran did.
func (k *monitor) victimBlock(t int) {
	lv, err := k.makeInst("victim", t, nil)
	if err != nil {
		return
	}
	probe, _ := k.w.newInst(t, nil)
	n := 0
	for _, msg := range []string{"m", "n"} {
		// these messages have no accessor primaries: no daemon changes a variable
		if k.w.send(probe, msg, 7).handled {
			k.failSend(lv, "wrong-argument-count", "(send "+lv.name+" :"+msg+")", false)
			k.failSend(lv, "wrong-argument-count", "(send "+lv.name+" :"+msg+" 7 8)", false)
			n++
		}
	}
	if 0 < n {
		k.sweepBoth("after-wrong-argument-count", lv)
	}
	k.failSend(lv, "unhandled-message", "(send "+lv.name+" :c11-no-such-message 7)", true)
	k.checkSlots("after-unhandled-message directly", lv)
	k.failSend(lv, "unhandled-message", "(send "+lv.name+" :c11-no-such-message)", true)
	k.sweepBoth("after-unhandled-message", lv)
	k.x.Cover("victim-blocks")
}

func (k *monitor) send(what string, lv *live, msg, path string) {
	if lv.tainted {
		return
	}
	var arg val
	if 0 < arity(msg) {
		arg = 7
	}
	probe := *lv.m
	probe.vars = map[string]val{}
	for n, v := range lv.m.vars {
		probe.vars[n] = v
	}
	t := lv.m.t
	unhandled := !k.w.send(&probe, msg, arg).handled
	if unhandled && !k.quiet {
		k.x.Cover("send:unhandled-message-to-a-kept-instance")
	}
	e := k.w.send(lv.m, msg, arg)
	trace = trace[:0]
	var (
		res slip.Object
		err *sl.Err
	)
	if path == "send" {
		src := "(send " + lv.name + " :" + msg
		if 0 < arity(msg) {
			src += " 7"
		}
		src += ")"
		if e.errs || unhandled {
			res, err = k.evalGuarded(src)
		} else {
			res, err = k.eval(src)
		}
	} else {
		bindings := slip.NewScope()
		if 0 < arity(msg) {
			bindings.Let(slip.Symbol("a"), slip.Fixnum(7))
		}
		err = sl.Catch(func() {
			res = lv.fi.BoundReceive(k.scope, ":"+msg, bindings, 0)
		})
	}
	got := append([]string{}, trace...)
	if e.errs {
		lv.after = "daemon-signals-error"
	}
	if unhandled {
		lv.after = "unhandled-message"
	}
	if what == "final" {
		key := fmt.Sprintf("send|%d|%s|%s|#%d", t, msg, path, k.nSend[tm{t, msg + path}])
		k.nSend[tm{t, msg + path}]++
		v := strings.Join(got, " ")
		switch {
		case unhandled:
		case err != nil:
			v += " => error"
		default:
			v += " => " + sl.Show(res)
		}
		k.record(key, "send late="+lateNames[k.w.late[tm{t, msg}]]+" path="+path, v)
	}
	if k.quiet {
		return
	}
	if !k.judgeSend(what, t, msg, path, e, got, res, err, true) {
		k.resync(lv)
	}
}

func (k *monitor) checkFlavor(t int) {
	name := fname(k.pre, t)
	p := k.w.prec(t)
	var want []string
	for _, f := range p {
		want = append(want, fname(k.pre, f))
	}
	want = append(want, "vanilla-flavor")
	// class-precedence
	res, err := k.eval("(class-precedence '" + name + ")")
	if err != nil {
		k.fail("fail=precedence", "(class-precedence f%d) => %s", t, err)
	} else {
		var got []string
		if l, ok := res.(slip.List); ok {
			for _, e := range l {
				got = append(got, sl.Show(e))
			}
		}
		for 0 < len(got) && (got[len(got)-1] == "t" || got[len(got)-1] == "instance") {
			got = got[:len(got)-1]
		}
		k.record("precedence|"+strconv.Itoa(t), "precedence", strings.Join(got, " "))
		if !eqs(got, want) {
			k.fail("fail=precedence", "(class-precedence f%d) => %v, model says %v", t, got, want)
		} else if !k.quiet {
			k.x.Cover(fmt.Sprintf("precedence-checked len=%d", len(p)))
		}
	}
	// describe-flavor
	cf := flavors.Find(name)
	if cf == nil {
		k.fail("fail=find-flavor", "flavor f%d is not registered after its defflavor", t)
		return
	}
	var text string
	if derr := sl.Catch(func() { text = string(cf.Describe(nil, 0, 1000, false)) }); derr != nil {
		k.fail("fail=describe what=error", "describe-flavor f%d => %s", t, derr)
		return
	}
	sect := ""
	vars := map[string]string{}
	keys := map[string]string{}
	var inherits []string
	for _, line := range strings.Split(text, "\n") {
		switch {
		case strings.HasPrefix(line, "  Inherits:"):
			inherits = strings.Fields(strings.TrimPrefix(line, "  Inherits:"))
		case strings.HasPrefix(line, "    "):
			kv := strings.SplitN(strings.TrimSpace(line), " = ", 2)
			if len(kv) == 2 {
				v := strings.TrimSuffix(kv[1], " (initable)")
				if sect == "Variables" {
					vars[kv[0]] = v
				} else if strings.HasPrefix(sect, "Keywords") {
					keys[kv[0]] = v
				}
			}
		case strings.HasPrefix(line, "  "):
			sect = strings.TrimSuffix(strings.TrimSpace(line), ":")
		}
	}
	k.record("describe|"+strconv.Itoa(t), "describe-flavor", fmt.Sprint(inherits, vars, keys))
	if k.quiet {
		return
	}
	if !eqs(inherits, want[1:]) {
		k.fail("fail=describe what=inherits", "describe-flavor f%d lists components %v, model says %v", t, inherits, want[1:])
	}
	in, _ := k.w.newInst(t, nil)
	wantVars := map[string]string{}
	for n, v := range in.vars {
		wantVars[n] = show(v)
	}
	if fmt.Sprint(vars) != fmt.Sprint(wantVars) {
		k.fail("fail=describe what=variable-defaults", "describe-flavor f%d lists variables %v, model says %v", t, vars, wantVars)
	}
	wantKeys := map[string]string{}
	for n, v := range k.w.keys(t) {
		wantKeys[":"+n] = show(v)
	}
	if fmt.Sprint(keys) != fmt.Sprint(wantKeys) {
		k.fail("fail=describe what=keyword-defaults", "describe-flavor f%d lists keywords %v, model says %v", t, keys, wantKeys)
	}
	k.x.Cover("describe-checked")
}

func newMonitor(x *fw.Ctx, c *Case, quiet bool) *monitor {
	caseSerial++
	return &monitor{x: x, c: c, w: newWorld(c), scope: slip.NewScope(),
		quiet: quiet, rec: map[string]string{}, recLbl: map[string]string{}, nSend: map[tm]int{}, nMake: map[int]int{},
		early: map[int]*live{}, pre: fmt.Sprintf("c%dn%d", x.Index, caseSerial)}
}

// runSteps evaluates the history; false when a form could not be defined.
func (k *monitor) runSteps(steps []Step) bool {
	x, c := k.x, k.c
	cover := func(key string) {
		if !k.quiet {
			x.Cover(key)
		}
	}
	for si, st := range steps {
		switch st.Op {
		case "flavor", "flavor-err":
			if st.F < 0 || len(c.Flavors) <= st.F {
				return false
			}
			src := flavorSrc(k.pre, st.F, &c.Flavors[st.F])
			k.forms = append(k.forms, strings.ReplaceAll(src, k.pre, ""))
			_, err := k.eval(src)
			if st.Op == "flavor-err" {
				switch {
				case err == nil:
					k.fail("fail=requirement-not-enforced", "step %d %s was accepted although a requirement of an abstract component is not met", si, src)
				case err.Internal:
					k.fail("fail=define-error form=defflavor", "step %d %s => %s", si, src, err)
				default:
					cover("form:defflavor-rejected-for-requirement")
				}
				continue
			}
			if err != nil {
				k.fail("fail=define-error form=defflavor", "step %d %s => %s", si, src, err)
				return false
			}
			k.w.defFlavor(st.F)
			cover("form:defflavor")
			fl := &c.Flavors[st.F]
			if 0 < len(fl.Comps) && (fl.GetAll || fl.SetAll || fl.IniAll) {
				cover("form:bare-accessor-option-with-components")
			}
			if 0 < len(fl.Incl) {
				cover("form:included-flavors")
			}
			if fl.Abstract {
				cover("form:abstract-flavor")
			}
			if 0 < len(fl.ReqVars)+len(fl.ReqFlavors) {
				cover("form:required-variables/flavors")
			}
		case "method":
			if st.M < 0 || len(c.Methods) <= st.M {
				return false
			}
			m := c.Methods[st.M]
			ver := k.w.meth[mkey{m.F, m.Kind, m.Msg}] + 1
			if 1 < ver {
				cover("form:redefinition")
			}
			src := methodSrc(k.pre, m, ver)
			k.forms = append(k.forms, strings.ReplaceAll(src, k.pre, ""))
			if _, err := k.eval(src); err != nil {
				form := "defmethod"
				if m.Kind == "whopper" {
					form = "defwhopper"
				}
				k.fail("fail=define-error form="+form, "step %d %s => %s", si, src, err)
				return false
			}
			k.w.defMethod(m)
			cover("form:" + m.Kind)
			if m.Stop {
				cover("form:whopper-without-continue")
			}
		case "inst":
			if k.quiet {
				continue
			}
			k.forms = append(k.forms, fmt.Sprintf("[make f%d]", st.F))
			lv, err := k.makeInst("mid-history", st.F, nil)
			if err != nil {
				k.fail("fail=define-error form=make-instance", "step %d make-instance of f%d => %s", si, st.F, err)
				return false
			}
			k.early[st.F] = lv
			cover("form:mid-history-instance")
		case "send":
			if k.quiet {
				continue
			}
			k.forms = append(k.forms, fmt.Sprintf("[send f%d :%s]", st.F, st.Msg))
			if lv := k.early[st.F]; lv != nil {
				k.send("mid-history", lv, st.Msg, "send")
				cover("form:mid-history-send")
			}
		}
	}
	return true
}

// finalSweep observes every flavor of the case after the history.
func (k *monitor) finalSweep() {
	x, c := k.x, k.c
	cover := func(key string) {
		if !k.quiet {
			x.Cover(key)
		}
	}
	universe := messageUniverse(c)
	for t := range c.Flavors {
		if !k.w.defined[t] {
			continue
		}
		k.checkFlavor(t)
		if c.Flavors[t].Abstract {
			_, err := k.eval("(make-instance '" + fname(k.pre, t) + ")")
			switch {
			case err == nil:
				k.fail("fail=abstract-flavor-instantiated", "(make-instance 'f%d) succeeded for an :abstract-flavor", t)
			case err.Internal:
				k.fail("fail=define-error form=make-instance", "make-instance of abstract f%d => %s", t, err)
			default:
				cover("abstract-flavor:make-instance-rejected")
			}
			continue
		}
		fresh, err := k.makeInst("final", t, nil)
		if err != nil {
			k.fail("fail=define-error form=make-instance", "make-instance of f%d => %s", t, err)
			continue
		}
		bound, _ := k.makeInst("final", t, nil)
		for _, msg := range universe {
			k.send("final", fresh, msg, "send")
			if bound != nil {
				k.send("final", bound, msg, "bound")
			}
			if lv := k.early[t]; lv != nil {
				k.send("final early-instance", lv, msg, "send")
			}
		}
		k.checkSlots("final after the sends", fresh)
		if bound != nil {
			k.checkSlots("final after the bound sends", bound)
		}
		if lv := k.early[t]; lv != nil {
			k.checkSlots("final early-instance after the sends", lv)
		}
		// init keywords: every variable and every inherited keyword is tried;
		// acceptance is demanded where the model says the keyword is inherited
		in, _ := k.w.newInst(t, nil)
		for _, v := range in.varNames() {
			must := k.w.mustAcceptVar(t, v)
			_, err := k.makeInst("init-keyword", t, []kwarg{{v, 55}})
			k.record(fmt.Sprintf("initkw|%d|%s", t, v), "init-keyword", fmt.Sprint(err == nil))
			switch {
			case err == nil:
				cover("init-keyword:var-accepted")
			case must:
				k.fail("fail=init-keyword-rejected kind=var", "(make-instance 'f%d :%s 55) => %s; the model says the variable is initable", t, v, err)
			default:
				cover("init-keyword:var-rejected(not required)")
			}
		}
		var ks []string
		for n := range k.w.keys(t) {
			ks = append(ks, n)
		}
		sort.Strings(ks)
		for _, n := range ks {
			_, err := k.makeInst("init-keyword", t, []kwarg{{n, 55}})
			k.record(fmt.Sprintf("initkw|%d|%s", t, n), "init-keyword", fmt.Sprint(err == nil))
			if err != nil {
				k.fail("fail=init-keyword-rejected kind=key", "(make-instance 'f%d :%s 55) => %s; the model says the keyword is inherited", t, n, err)
			} else {
				cover("init-keyword:key-accepted")
			}
		}
	}
	if k.quiet {
		return
	}
	// failed sends to a kept instance: every flavor of a template case, the
	// flavor with the longest precedence list of a seeded case
	best := -1
	for t := range c.Flavors {
		if !k.w.defined[t] || c.Flavors[t].Abstract {
			continue
		}
		if c.Tmpl != "" {
			k.victimBlock(t)
		} else if best < 0 || len(k.w.prec(best)) <= len(k.w.prec(t)) {
			best = t
		}
	}
	if 0 <= best {
		k.victimBlock(best)
	}
}

// referenceSteps is the reference order of the same forms: every flavor
// (lowest index first among those whose components exist) directly
// followed by all its methods, so that no method is ever defined after a
// flavor that inherits it. Definitions of one method keep their order.
func referenceSteps(c *Case) []Step {
	var out []Step
	done := make([]bool, len(c.Flavors))
	for n := 0; n < len(c.Flavors); n++ {
		pick := -1
		for f := range c.Flavors {
			if done[f] {
				continue
			}
			ok := true
			for _, d := range c.Flavors[f].deps() {
				ok = ok && done[d]
			}
			if ok {
				pick = f
				break
			}
		}
		if pick < 0 {
			break
		}
		done[pick] = true
		out = append(out, Step{Op: "flavor", F: pick})
		for _, st := range c.Steps {
			if st.Op == "method" && 0 <= st.M && st.M < len(c.Methods) && c.Methods[st.M].F == pick {
				out = append(out, st)
			}
		}
	}
	return out
}

func exec(x *fw.Ctx, c Case) {
	k := newMonitor(x, &c, false)
	defer sl.Reset()
	x.Cover(fmt.Sprintf("case:flavors=%d", len(c.Flavors)))
	x.Cover(fmt.Sprintf("case:methods=%d", len(c.Methods)))
	maxc := 0
	for _, f := range c.Flavors {
		if maxc < len(f.Comps) {
			maxc = len(f.Comps)
		}
	}
	x.Cover(fmt.Sprintf("case:max-components=%d", maxc))
	if c.Tmpl != "" {
		x.Cover("case:template")
	} else {
		x.Cover("case:seeded")
	}
	if !k.runSteps(c.Steps) {
		return
	}
	k.finalSweep()
	if c.Rel {
		// the relation monitor: the same forms in the reference order, under
		// other names, must give the same observations (no model involved)
		ref := newMonitor(x, &c, true)
		if ref.runSteps(referenceSteps(&c)) {
			ref.finalSweep()
			keys := make([]string, 0, len(k.rec))
			for key := range k.rec {
				keys = append(keys, key)
			}
			sort.Strings(keys)
			reported := map[string]bool{}
			for _, key := range keys {
				x.Cover("relation:observations-compared")
				rv, has := ref.rec[key]
				if has && rv == k.rec[key] {
					continue
				}
				lbl := k.recLbl[key]
				if reported[lbl] {
					continue
				}
				reported[lbl] = true
				if !has {
					rv = "<not observed>"
				}
				k.fail("relation fail=history-dependent obs="+lbl, "observation %s: this history gives [%s], the same forms in the reference order give [%s] || reference order: %s",
					key, k.rec[key], rv, ref.history())
			}
			x.Cover("relation:cases")
		} else {
			x.Cover("relation:reference-order-not-definable")
		}
	}
	if !k.rich {
		x.Trivial()
	}
	obs := map[string]any{"history": k.forms}
	if k.sample != nil {
		obs["sample"] = k.sample
	}
	x.Observe(obs)
}

var caseSerial int

func init() {
	fw.Register(fw.Spec[Case]{
		ID: "C11",
		Rule: "case = (flavor DAG of 1..5 flavors with up to 3 components each; per flavor: variables with and without defaults, listed and bare " +
			":gettable/:settable/:initable options (bare ones also on flavors with components), :default-init-plist/:init-keywords, in a minority " +
			":included-flavors, :abstract-flavor with met :required-instance-variables/:required-flavors; an assignment of primary/:before/:after/whopper " +
			"methods (whoppers that continue and whoppers that do not; in 1 case in 5 daemons that signal an error) on messages :m :n :init and accessor names; a history). " +
			"One kept instance per case (every flavor in template cases) receives failed sends under ignore-errors (wrong argument count, an unknown message twice), " +
			"each followed by the full sweep through both paths: self and the variable set must be the instance's own. " +
			"First block: every admissible order of the 2..7 forms of template hierarchies (siblings, reversed siblings, chain, two users of one base, " +
			"diamond, triple, deep sibling, crossed pairs) for each daemon kind, mixed kinds, :init and accessor messages, plain variable and keyword defaults over " +
			"3- and 4-level chains and diamonds, bare options, non-continuing whoppers, included flavors, abstract flavors with met and unmet requirements; " +
			"then 8000 (quick) / 110000 (thorough) seeded DAGs with seeded admissible orders (uniform / methods early / flavors first), redefinitions, " +
			"instances made and messages sent in mid-history. Every flavor of a case is observed at the end through send and through BoundReceive and judged by the " +
			"reference model; for every template case and every second seeded case the same forms are also evaluated in the reference order (each flavor directly " +
			"followed by its methods) under other names and all final observations of the two histories are compared without the model. " +
			"distinct = distinct case JSON; non-trivial = at least one observed send combined daemons of 2 or more flavors. " +
			"not generated: :included-flavors on a flavor with components or on an abstract flavor and a flavor included twice (position not specified), :required-methods",
		N:        nCases,
		Gen:      gen,
		Exec:     exec,
		Init:     initWorker,
		Batch:    200,
		HangSecs: 120,
		Assumptions: []string{
			"the reference model in model.go is the specification (precedence = depth-first, first occurrence kept, vanilla-flavor last)",
			"the harness builtin c11-tr records daemons in the order they run",
			"instance variables are read through Instance.SlotValue, not through the method tables under test",
			"the bare :gettable/:settable/:initable options cover every variable of the flavor, inherited ones included (FuncDoc of defflavor: 'for each variable')",
			"an included flavor that is not a component otherwise follows the flavor that includes it",
		},
	})
}
