// Package c11 monitors flavor inheritance and method combination: for a
// generated flavor DAG, method assignment and definition history, every
// defflavor/defmethod/defwhopper form is evaluated by the real interpreter in
// the given order, then messages are sent to instances of every flavor and
// the daemons that ran (recorded by a Go builtin the daemons call), the
// results, the instance variables, accepted init keywords, describe-flavor
// and class-precedence are compared with the reference model in model.go.
package c11

import (
	"fmt"
	"sort"
	"strconv"
	"strings"

	"github.com/ohler55/slip"
	"github.com/ohler55/slip/pkg/flavors"

	"verif/internal/fw"
	"verif/internal/sl"
)

// ---- the trace builtin --------------------------------------------------

var trace []string

type trFn struct {
	slip.Function
}

// Call appends the tag (and the rendered argument, if any) to the trace.
func (f *trFn) Call(s *slip.Scope, args slip.List, depth int) slip.Object {
	tag := "?"
	if 0 < len(args) {
		if ss, ok := args[0].(slip.String); ok {
			tag = string(ss)
		}
	}
	if 1 < len(args) {
		tag += ":" + sl.Show(args[1])
	}
	trace = append(trace, tag)
	return nil
}

func initWorker() {
	slip.Define(
		func(args slip.List) slip.Object {
			f := trFn{Function: slip.Function{Name: "c11-tr", Args: args}}
			f.Self = &f
			return &f
		},
		&slip.FuncDoc{
			Name: "c11-tr",
			Args: []*slip.DocArg{
				{Name: "tag", Type: "string"},
				{Name: "&optional"},
				{Name: "arg", Type: "object"},
			},
			Return: "nil",
			Text:   "records a marker in the C11 monitor's trace",
		}, &slip.UserPkg)
}

// ---- rendering the forms -------------------------------------------------

func fname(pre string, f int) string { return pre + "f" + strconv.Itoa(f) }

func flavorSrc(pre string, k int, f *Flavor) string {
	var b strings.Builder
	b.WriteString("(defflavor " + fname(pre, k) + " (")
	for i, v := range f.Vars {
		if 0 < i {
			b.WriteByte(' ')
		}
		if v.Bare {
			b.WriteString(v.name())
		} else {
			fmt.Fprintf(&b, "(%s %d)", v.name(), v.D)
		}
	}
	b.WriteString(") (")
	for i, c := range f.Comps {
		if 0 < i {
			b.WriteByte(' ')
		}
		b.WriteString(fname(pre, c))
	}
	b.WriteString(")")
	opt := func(name string, all bool, list []string) {
		if all {
			b.WriteString(" " + name)
		} else if 0 < len(list) {
			b.WriteString(" (" + name + " " + strings.Join(list, " ") + ")")
		}
	}
	opt(":gettable-instance-variables", f.GetAll, f.Get)
	opt(":settable-instance-variables", f.SetAll, f.Set)
	opt(":initable-instance-variables", f.IniAll, f.Ini)
	var plist, kws []string
	for _, k := range f.Keys {
		if k.NoDef {
			kws = append(kws, fmt.Sprintf(":k%d", k.N))
		} else {
			plist = append(plist, fmt.Sprintf("(:k%d %d)", k.N, k.D))
		}
	}
	if 0 < len(plist) {
		b.WriteString(" (:default-init-plist " + strings.Join(plist, " ") + ")")
	}
	if 0 < len(kws) {
		b.WriteString(" (:init-keywords " + strings.Join(kws, " ") + ")")
	}
	b.WriteString(")")
	return b.String()
}

func methodSrc(pre string, m Method, ver int) string {
	ll, a, ca := "()", "", ""
	if 0 < arity(m.Msg) {
		ll, a = "(a)", " a"
		ca = fmt.Sprintf(" (list %d a)", m.F)
	}
	id := fmt.Sprintf("%d.%d", m.F, ver)
	switch m.Kind {
	case "whopper":
		return fmt.Sprintf(`(defwhopper (%s :%s) %s (c11-tr "w%s"%s) (let ((r (continue-whopper%s))) (c11-tr "x%s") (list 'w %d r)))`,
			fname(pre, m.F), m.Msg, ll, id, a, ca, id, m.F)
	case "primary":
		return fmt.Sprintf(`(defmethod (%s :%s) %s (c11-tr "p%s"%s) (list %d %d%s))`,
			fname(pre, m.F), m.Msg, ll, id, a, m.F, ver, a)
	}
	return fmt.Sprintf(`(defmethod (%s :%s :%s) %s (c11-tr "%s%s"%s))`,
		fname(pre, m.F), m.Kind, m.Msg, ll, m.Kind[:1], id, a)
}

// ---- the monitor ---------------------------------------------------------

type live struct {
	obj  slip.Object
	fi   *flavors.Instance
	m    *inst
	name string
}

type monitor struct {
	x        *fw.Ctx
	c        *Case
	w        *world
	pre      string
	scope    *slip.Scope
	forms    []string
	nInst    int
	rich     bool
	sample   map[string]any
	failures int
	scratch  map[int]*live
	// unhandled messages are sent once per flavor
	unhandledSent map[tm]bool
}

func (k *monitor) history() string { return strings.Join(k.forms, " ") }

func (k *monitor) fail(sig, format string, a ...any) {
	k.failures++
	if 6 < k.failures {
		return
	}
	k.x.Fail(sig, "%s || history: %s", fmt.Sprintf(format, a...), k.history())
}

func (k *monitor) eval(src string) (slip.Object, *sl.Err) {
	return sl.Eval(k.scope, src)
}

func msgClass(msg string) string {
	if msg == "init" {
		return "vanilla"
	}
	return "user"
}

func sigFor(late int, class, daemon, mc, path string) string {
	switch {
	case late == lateMid:
		return fmt.Sprintf("late=mid fail=%s path=%s", class, path)
	case path == "bound" && class == "order" && daemon == "after":
		return "path=bound fail=order daemon=after"
	case daemon == "whopper3+" && class == "members":
		return "fail=members daemon=whopper3+ path=" + path
	case mc == "vanilla" && daemon == "primary":
		return "msg=vanilla fail=wrong daemon=primary path=" + path
	}
	return fmt.Sprintf("late=%s fail=%s daemon=%s msg=%s path=%s", lateNames[late], class, daemon, mc, path)
}

func ident(m string) string {
	if i := strings.IndexByte(m, ':'); 0 <= i {
		return m[:i]
	}
	return m
}

func idents(ms []string) []string {
	out := make([]string, len(ms))
	for i, m := range ms {
		out[i] = ident(m)
	}
	return out
}

func eqs(a, b []string) bool {
	if len(a) != len(b) {
		return false
	}
	for i := range a {
		if a[i] != b[i] {
			return false
		}
	}
	return true
}

func sameSet(a, b []string) bool {
	a = append([]string{}, a...)
	b = append([]string{}, b...)
	sort.Strings(a)
	sort.Strings(b)
	return eqs(a, b)
}

// judgeTrace compares the daemons that ran with the model, kind by kind.
func judgeTrace(e *expect, got []string) (class, daemon string) {
	var gw, gb, gp, ga, gx, other []string
	for _, m := range got {
		switch m[0] {
		case 'w':
			gw = append(gw, m)
		case 'b':
			gb = append(gb, m)
		case 'p':
			gp = append(gp, m)
		case 'a':
			ga = append(ga, m)
		case 'x':
			gx = append(gx, m)
		default:
			other = append(other, m)
		}
	}
	wname := "whopper"
	if 3 <= e.nWhoppers {
		wname = "whopper3+"
	}
	cmp := func(g, w []string, name string) bool {
		if eqs(g, w) {
			return true
		}
		daemon = name
		switch {
		case !sameSet(idents(g), idents(w)):
			class = "members"
		case !eqs(idents(g), idents(w)):
			class = "order"
		default:
			class = "arg"
		}
		return false
	}
	if !cmp(gw, e.whopIn, wname) {
		return
	}
	if !cmp(gb, e.before, "before") {
		return
	}
	var wp []string
	if e.primary != "" {
		wp = []string{e.primary}
	}
	if !eqs(gp, wp) {
		daemon = "primary"
		class = "wrong"
		if eqs(idents(gp), idents(wp)) {
			class = "arg"
		}
		return
	}
	if !cmp(ga, e.after, "after") {
		return
	}
	if !cmp(gx, e.whopOut, wname+"-exit") {
		return
	}
	if 0 < len(other) || !eqs(got, e.trace()) {
		return "phase", "all"
	}
	return "", ""
}

// judgeSend compares one observed send (trace, result, error) with the model.
func (k *monitor) judgeSend(what string, t int, msg, path string, e *expect, got []string, res slip.Object, err *sl.Err, checkResult bool) (ok bool) {
	x := k.x
	late := k.w.late[tm{t, msg}]
	mc := msgClass(msg)
	x.Cover("path:" + path)
	x.Cover("late:" + lateNames[late])
	x.Cover("msg:" + mc)
	if !e.handled {
		x.Cover("send:unhandled")
	} else {
		x.Cover(fmt.Sprintf("send:flavors-contributing=%d", e.nFlavors))
		x.Cover(fmt.Sprintf("send:whoppers=%d", e.nWhoppers))
		if 2 <= e.nFlavors {
			k.rich = true
			x.Cover("send:combined late=" + lateNames[late] + " path=" + path)
		}
	}
	x.CoverN("daemons-expected", e.nDaemons)
	x.CoverN("daemons-observed", len(got))
	if k.sample == nil && 2 <= e.nFlavors {
		k.sample = map[string]any{"flavor": t, "msg": msg, "path": path, "trace": got, "late": lateNames[late]}
	}
	desc := fmt.Sprintf("%s: (%s f%d :%s) late=%s", what, path, t, msg, lateNames[late])
	if err != nil {
		if err.Internal {
			if e.handled {
				k.fail(sigFor(late, "internal-fault", "-", mc, path), "%s => %s; model trace %v", desc, err, e.trace())
				return false
			}
			x.Cover("send:unhandled-internal-fault(not judged here)")
		} else if e.handled {
			k.fail(sigFor(late, "error", "-", mc, path), "%s => %s; model trace %v", desc, err, e.trace())
			return false
		}
		x.Cover("send:unhandled-error")
	}
	class, daemon := judgeTrace(e, got)
	if class != "" {
		k.fail(sigFor(late, class, daemon, mc, path), "%s ran %v, model says %v", desc, got, e.trace())
		return false
	}
	if checkResult && e.hasPrim && err == nil {
		if g, w := sl.Show(res), show(e.result); g != w {
			k.fail(sigFor(late, "result", "-", mc, path), "%s returned %s, model says %s (trace %v)", desc, g, w, got)
			return false
		}
		x.Cover("result-checked")
	}
	return true
}

// resync copies the real instance variables into the model after a send the
// model did not predict, so that one failure is reported once.
func (k *monitor) resync(lv *live) {
	for n := range lv.m.vars {
		if v, has := lv.fi.SlotValue(slip.Symbol(n)); has {
			lv.m.vars[n] = sym(sl.Show(v))
		}
	}
}

// checkSlots compares the instance variables with the model.
func (k *monitor) checkSlots(what string, lv *live) {
	want := lv.m.varNames()
	for _, n := range want {
		v, has := lv.fi.SlotValue(slip.Symbol(n))
		if !has {
			k.fail("fail=var-missing", "%s: an instance of f%d has no variable %s (has %v)", what, lv.m.t, n, lv.fi.SlotNames())
			return
		}
		if g, w := sl.Show(v), show(lv.m.vars[n]); g != w {
			k.fail("fail=var-value at="+strings.SplitN(what, " ", 2)[0], "%s: variable %s of an instance of f%d is %s, model says %s", what, n, lv.m.t, g, w)
			return
		}
		k.x.Cover("slot-checked")
	}
}

// makeInst evaluates (make-instance 'f<t> ...), judges the :init daemons
// that ran and the initial variables.
func (k *monitor) makeInst(what string, t int, kv []kwarg) (*live, *sl.Err) {
	k.nInst++
	lv := &live{name: fmt.Sprintf("i%d", k.nInst)}
	src := "(make-instance '" + fname(k.pre, t)
	for _, a := range kv {
		src += fmt.Sprintf(" :%s %d", a.key, a.v)
	}
	src += ")"
	var plist val
	lv.m, plist = k.w.newInst(t, kv)
	e := k.w.send(lv.m, "init", plist)
	trace = trace[:0]
	obj, err := k.eval(src)
	got := append([]string{}, trace...)
	if err != nil {
		return nil, err
	}
	fi, ok := obj.(*flavors.Instance)
	if !ok {
		k.fail("fail=make-instance", "%s: %s returned %s", what, src, sl.Show(obj))
		return nil, &sl.Err{Class: "not-an-instance"}
	}
	lv.obj, lv.fi = obj, fi
	k.scope.Let(slip.Symbol(lv.name), obj)
	if k.judgeSend(what+" make-instance", t, "init", "send", e, got, nil, nil, false) {
		k.checkSlots(what+" after make-instance", lv)
	} else {
		k.resync(lv)
	}
	return lv, nil
}

func (k *monitor) send(what string, lv *live, msg, path string) {
	var arg val
	if 0 < arity(msg) {
		arg = 7
	}
	probe := *lv.m
	probe.vars = map[string]val{}
	for n, v := range lv.m.vars {
		probe.vars[n] = v
	}
	if !k.w.send(&probe, msg, arg).handled {
		// an unhandled message leaves condition slots in the receiving
		// instance on this tree (not this property's concern): use a
		// throw-away instance and only watch that no daemon runs
		k.x.Cover("avoided:unhandled-message-to-a-kept-instance")
		if path != "send" || k.unhandledSent[tm{lv.m.t, msg}] {
			return
		}
		k.unhandledSent[tm{lv.m.t, msg}] = true
		sc := k.scratch[lv.m.t]
		if sc == nil {
			var serr *sl.Err
			if sc, serr = k.makeInst("scratch", lv.m.t, nil); serr != nil {
				return
			}
			k.scratch[lv.m.t] = sc
		}
		lv = sc
	}
	e := k.w.send(lv.m, msg, arg)
	trace = trace[:0]
	var (
		res slip.Object
		err *sl.Err
	)
	if path == "send" {
		src := "(send " + lv.name + " :" + msg
		if 0 < arity(msg) {
			src += " 7"
		}
		src += ")"
		res, err = k.eval(src)
	} else {
		bindings := slip.NewScope()
		if 0 < arity(msg) {
			bindings.Let(slip.Symbol("a"), slip.Fixnum(7))
		}
		err = sl.Catch(func() {
			res = lv.fi.BoundReceive(k.scope, ":"+msg, bindings, 0)
		})
	}
	got := append([]string{}, trace...)
	if !k.judgeSend(what, lv.m.t, msg, path, e, got, res, err, true) {
		k.resync(lv)
	}
}

func (k *monitor) checkFlavor(t int) {
	name := fname(k.pre, t)
	p := k.w.prec(t)
	var want []string
	for _, f := range p {
		want = append(want, fname(k.pre, f))
	}
	want = append(want, "vanilla-flavor")
	// class-precedence
	res, err := k.eval("(class-precedence '" + name + ")")
	if err != nil {
		k.fail("fail=precedence", "(class-precedence f%d) => %s", t, err)
	} else {
		var got []string
		if l, ok := res.(slip.List); ok {
			for _, e := range l {
				got = append(got, sl.Show(e))
			}
		}
		for 0 < len(got) && (got[len(got)-1] == "t" || got[len(got)-1] == "instance") {
			got = got[:len(got)-1]
		}
		if !eqs(got, want) {
			k.fail("fail=precedence", "(class-precedence f%d) => %v, model says %v", t, got, want)
		} else {
			k.x.Cover(fmt.Sprintf("precedence-checked len=%d", len(p)))
		}
	}
	// describe-flavor
	cf := flavors.Find(name)
	if cf == nil {
		k.fail("fail=find-flavor", "flavor f%d is not registered after its defflavor", t)
		return
	}
	var text string
	if derr := sl.Catch(func() { text = string(cf.Describe(nil, 0, 1000, false)) }); derr != nil {
		k.fail("fail=describe what=error", "describe-flavor f%d => %s", t, derr)
		return
	}
	sect := ""
	vars := map[string]string{}
	keys := map[string]string{}
	var inherits []string
	for _, line := range strings.Split(text, "\n") {
		switch {
		case strings.HasPrefix(line, "  Inherits:"):
			inherits = strings.Fields(strings.TrimPrefix(line, "  Inherits:"))
		case strings.HasPrefix(line, "    "):
			kv := strings.SplitN(strings.TrimSpace(line), " = ", 2)
			if len(kv) == 2 {
				v := strings.TrimSuffix(kv[1], " (initable)")
				if sect == "Variables" {
					vars[kv[0]] = v
				} else if strings.HasPrefix(sect, "Keywords") {
					keys[kv[0]] = v
				}
			}
		case strings.HasPrefix(line, "  "):
			sect = strings.TrimSuffix(strings.TrimSpace(line), ":")
		}
	}
	if !eqs(inherits, want[1:]) {
		k.fail("fail=describe what=inherits", "describe-flavor f%d lists components %v, model says %v", t, inherits, want[1:])
	}
	in, _ := k.w.newInst(t, nil)
	wantVars := map[string]string{}
	for n, v := range in.vars {
		wantVars[n] = show(v)
	}
	if fmt.Sprint(vars) != fmt.Sprint(wantVars) {
		k.fail("fail=describe what=variable-defaults", "describe-flavor f%d lists variables %v, model says %v", t, vars, wantVars)
	}
	wantKeys := map[string]string{}
	for n, v := range k.w.keys(t) {
		wantKeys[":"+n] = show(v)
	}
	if fmt.Sprint(keys) != fmt.Sprint(wantKeys) {
		k.fail("fail=describe what=keyword-defaults", "describe-flavor f%d lists keywords %v, model says %v", t, keys, wantKeys)
	}
	k.x.Cover("describe-checked")
}

func exec(x *fw.Ctx, c Case) {
	caseSerial++
	k := &monitor{x: x, c: &c, w: newWorld(&c), scope: slip.NewScope(), scratch: map[int]*live{}, unhandledSent: map[tm]bool{}, pre: fmt.Sprintf("c%dn%d", x.Index, caseSerial)}
	defer sl.Reset()
	early := map[int]*live{}
	vers := map[int]int{}
	x.Cover(fmt.Sprintf("case:flavors=%d", len(c.Flavors)))
	x.Cover(fmt.Sprintf("case:methods=%d", len(c.Methods)))
	maxc := 0
	for _, f := range c.Flavors {
		if maxc < len(f.Comps) {
			maxc = len(f.Comps)
		}
	}
	x.Cover(fmt.Sprintf("case:max-components=%d", maxc))
	if c.Tmpl != "" {
		x.Cover("case:template")
	} else {
		x.Cover("case:seeded")
	}
	for si, st := range c.Steps {
		switch st.Op {
		case "flavor":
			if st.F < 0 || len(c.Flavors) <= st.F {
				return
			}
			src := flavorSrc(k.pre, st.F, &c.Flavors[st.F])
			k.forms = append(k.forms, strings.ReplaceAll(src, k.pre, ""))
			if _, err := k.eval(src); err != nil {
				k.fail("fail=define-error form=defflavor", "step %d %s => %s", si, src, err)
				return
			}
			k.w.defFlavor(st.F)
			x.Cover("form:defflavor")
		case "method":
			if st.M < 0 || len(c.Methods) <= st.M {
				return
			}
			m := c.Methods[st.M]
			vers[st.M]++
			if 1 < vers[st.M] {
				x.Cover("form:redefinition")
			}
			src := methodSrc(k.pre, m, vers[st.M])
			k.forms = append(k.forms, strings.ReplaceAll(src, k.pre, ""))
			if _, err := k.eval(src); err != nil {
				form := "defmethod"
				if m.Kind == "whopper" {
					form = "defwhopper"
				}
				k.fail("fail=define-error form="+form, "step %d %s => %s", si, src, err)
				return
			}
			k.w.defMethod(m)
			x.Cover("form:" + m.Kind)
		case "inst":
			k.forms = append(k.forms, fmt.Sprintf("[make f%d]", st.F))
			lv, err := k.makeInst("mid-history", st.F, nil)
			if err != nil {
				k.fail("fail=define-error form=make-instance", "step %d make-instance of f%d => %s", si, st.F, err)
				return
			}
			early[st.F] = lv
			x.Cover("form:mid-history-instance")
		case "send":
			k.forms = append(k.forms, fmt.Sprintf("[send f%d :%s]", st.F, st.Msg))
			if lv := early[st.F]; lv != nil {
				k.send("mid-history", lv, st.Msg, "send")
				x.Cover("form:mid-history-send")
			}
		}
	}
	universe := messageUniverse(&c)
	for t := range c.Flavors {
		if !k.w.defined[t] {
			continue
		}
		k.checkFlavor(t)
		fresh, err := k.makeInst("final", t, nil)
		if err != nil {
			k.fail("fail=define-error form=make-instance", "make-instance of f%d => %s", t, err)
			continue
		}
		bound, _ := k.makeInst("final", t, nil)
		for _, msg := range universe {
			k.send("final", fresh, msg, "send")
			if bound != nil {
				k.send("final", bound, msg, "bound")
			}
			if lv := early[t]; lv != nil {
				k.send("final early-instance", lv, msg, "send")
			}
		}
		k.checkSlots("final after the sends", fresh)
		if bound != nil {
			k.checkSlots("final after the bound sends", bound)
		}
		if lv := early[t]; lv != nil {
			k.checkSlots("final early-instance after the sends", lv)
		}
		// init keywords
		in, _ := k.w.newInst(t, nil)
		for _, v := range in.varNames() {
			if !k.w.mustAcceptVar(t, v) {
				x.Cover("init-keyword:var-not-required")
				continue
			}
			if _, err := k.makeInst("init-keyword", t, []kwarg{{v, 55}}); err != nil {
				k.fail("fail=init-keyword-rejected kind=var", "(make-instance 'f%d :%s 55) => %s; the model says the variable is initable", t, v, err)
			} else {
				x.Cover("init-keyword:var-accepted")
			}
		}
		var ks []string
		for n := range k.w.keys(t) {
			ks = append(ks, n)
		}
		sort.Strings(ks)
		for _, n := range ks {
			if _, err := k.makeInst("init-keyword", t, []kwarg{{n, 55}}); err != nil {
				k.fail("fail=init-keyword-rejected kind=key", "(make-instance 'f%d :%s 55) => %s; the model says the keyword is inherited", t, n, err)
			} else {
				x.Cover("init-keyword:key-accepted")
			}
		}
	}
	if !k.rich {
		x.Trivial()
	}
	obs := map[string]any{"history": k.forms}
	if k.sample != nil {
		obs["sample"] = k.sample
	}
	x.Observe(obs)
}

var caseSerial int

func init() {
	fw.Register(fw.Spec[Case]{
		ID: "C11",
		Rule: "case = (flavor DAG of 1..5 flavors with up to 3 components each, variables/accessors/init keywords per flavor, " +
			"assignment of primary/:before/:after/whopper methods on messages :m :n :init and accessor names, a history). " +
			"First block (3716 cases): every admissible order of the 5..7 forms of template hierarchies (siblings, reversed siblings, chain, two users of one base, diamond, triple, deep sibling, crossed pairs) for each daemon kind, mixed kinds, :init and accessor messages; " +
			"then 12000 (quick) / 150000 (thorough) seeded DAGs with seeded admissible orders (uniform / methods early / flavors first), redefinitions, instances made and messages sent in mid-history. " +
			"Every flavor of a case is observed at the end through send and through BoundReceive. " +
			"distinct = distinct case JSON; non-trivial = at least one observed send combined daemons of 2 or more flavors. " +
			"not generated: the bare :gettable/:settable/:initable options on flavors with components, variables without a default that shadow a default",
		N:        nCases,
		Gen:      gen,
		Exec:     exec,
		Init:     initWorker,
		Batch:    200,
		HangSecs: 120,
		Assumptions: []string{
			"the reference model in model.go is the specification (precedence = depth-first, first occurrence kept, vanilla-flavor last)",
			"the harness builtin c11-tr records daemons in the order they run",
			"instance variables are read through Instance.SlotValue, not through the method tables under test",
		},
	})
}
