package c11

// The reference model of flavor inheritance and method combination, written
// from the property statement and the Flavors documentation. It does not
// import slip and never looks at slip's tables.
//
//   precedence(T) = T, then the components of T depth-first, left to right as
//                   written in defflavor, a flavor reached twice kept at its
//                   first place; vanilla-flavor last.
//   send          = whoppers outermost (precedence order) first, every :before
//                   in precedence order, the first primary in precedence
//                   order, every :after in reverse precedence order.
//   defaults, init keywords, accessors: first flavor in precedence that gives one.

import (
	"fmt"
	"sort"
	"strconv"
	"strings"
)

// Var is an instance variable of a defflavor form: v<N> with default D, or
// the bare variable u<N> (no default) when Bare.
type Var struct {
	N    int  `json:"n"`
	D    int  `json:"d,omitempty"`
	Bare bool `json:"bare,omitempty"`
	// ND: v<N> written as a bare symbol, i.e. this flavor gives no default
	ND bool `json:"nd,omitempty"`
	// Nil: v<N> written (v<N> nil): an explicit default of nil
	Nil bool `json:"nil,omitempty"`
}

func (v Var) noDefault() bool { return v.Bare || v.ND }

func (v Var) name() string {
	if v.Bare {
		return "u" + strconv.Itoa(v.N)
	}
	return "v" + strconv.Itoa(v.N)
}

// Key is an init keyword :k<N>; NoDef = listed under :init-keywords, else an
// entry (:k<N> D) of :default-init-plist.
type Key struct {
	N     int  `json:"n"`
	D     int  `json:"d,omitempty"`
	NoDef bool `json:"nodef,omitempty"`
}

// Flavor is one defflavor form. Comps are indices of other flavors of the
// case, in the order written. Get/Set/Ini list own variables (by name) named
// in the :gettable/:settable/:initable-instance-variables options; the *All
// flags are the bare form of the option.
type Flavor struct {
	Comps  []int    `json:"comps,omitempty"`
	Vars   []Var    `json:"vars,omitempty"`
	Get    []string `json:"get,omitempty"`
	GetAll bool     `json:"getall,omitempty"`
	Set    []string `json:"set,omitempty"`
	SetAll bool     `json:"setall,omitempty"`
	Ini    []string `json:"ini,omitempty"`
	IniAll bool     `json:"iniall,omitempty"`
	Keys   []Key    `json:"keys,omitempty"`
	// Incl: :included-flavors (generated only on a non-abstract flavor, naming a
	// flavor without components that is nobody's component and is included once)
	Incl []int `json:"incl,omitempty"`
	// Abstract: :abstract-flavor; ReqVars/ReqFlavors: :required-instance-variables
	// and :required-flavors (only meaningful on an abstract flavor)
	Abstract   bool     `json:"abstract,omitempty"`
	ReqVars    []string `json:"reqvars,omitempty"`
	ReqFlavors []int    `json:"reqflavors,omitempty"`
}

// deps lists the flavors that have to exist before f's defflavor.
func (f *Flavor) deps() []int {
	return append(append([]int{}, f.Comps...), f.Incl...)
}

// Method is one defmethod/defwhopper form: Kind is primary, before, after or
// whopper; Msg is the message name without the colon.
type Method struct {
	F    int    `json:"f"`
	Kind string `json:"kind"`
	Msg  string `json:"msg"`
	// Stop: a whopper that returns without continue-whopper
	Stop bool `json:"stop,omitempty"`
	// Err: the body signals an error right after recording its marker
	Err bool `json:"err,omitempty"`
	// Relay (whopper or :before daemon of a message with an argument): when
	// the argument is a number, i.e. on the outermost level of a send that no
	// whopper has wrapped yet, the body first sends the same message to self
	// with the argument (r <arg>), between the markers "<F" and ">F"; the
	// nested send runs the whole combination once more before the outer one
	// goes on from where it was
	Relay bool `json:"relay,omitempty"`
	// Twice (whopper): the body calls continue-whopper twice (the first result
	// is dropped): everything inside the whopper runs twice
	Twice bool `json:"twice,omitempty"`
}

// Step is one element of the history. Op: "flavor" (define flavor F),
// "flavor-err" (the defflavor of F has to signal an error: a requirement of an
// abstract component is not met; F stays undefined),
// "method" (define method M; a repeated M is a redefinition), "inst" (make
// an instance of F and keep it), "send" (send Msg to the kept instance of F).
// Forms that have to fail and leave nothing behind: "method-err" (a defmethod
// on the defined flavor F for message Msg with the daemon type :c11-bogus),
// "flavor-dup" (a second, different defflavor of the defined flavor F),
// "flavor-bad" (the defflavor of the not yet defined flavor F spoiled as Bad
// says: unknown-component, unknown-included, required-method, bad-option).
// Pkg (method steps): 1 = the form is evaluated while the current package is
// one that neither uses nor is used by the package the flavors live in.
type Step struct {
	Op  string `json:"op"`
	F   int    `json:"f,omitempty"`
	M   int    `json:"m,omitempty"`
	Msg string `json:"msg,omitempty"`
	Bad string `json:"bad,omitempty"`
	Pkg int    `json:"pkg,omitempty"`
}

// Case is a flavor DAG, a method assignment and a definition history.
type Case struct {
	Tmpl string `json:"tmpl,omitempty"`
	// Rel: also run the forms in the reference order and compare the observations
	Rel bool `json:"rel,omitempty"`
	// Decoy: before the history every flavor name of the case is defined with
	// another definition (components reversed, other defaults, daemons of
	// every kind with the marker z), instantiated, and removed again with
	// undefflavor; the history then defines the names anew
	Decoy   bool     `json:"decoy,omitempty"`
	Flavors []Flavor `json:"flavors"`
	Methods []Method `json:"methods"`
	Steps   []Step   `json:"steps"`
}

const vanillaIdx = -1

func arity(msg string) int {
	if strings.HasPrefix(msg, "v") || strings.HasPrefix(msg, "u") {
		return 0
	}
	return 1
}

// ---- values -------------------------------------------------------------

// val is nil, int, sym, kw or []val; rendered like the harness renderer
// sl.Show renders the corresponding slip objects.
type val any
type sym string

func show(v val) string {
	switch tv := v.(type) {
	case nil:
		return "nil"
	case int:
		return strconv.Itoa(tv)
	case sym:
		return string(tv)
	case []val:
		if len(tv) == 0 {
			return "nil"
		}
		parts := make([]string, len(tv))
		for i, e := range tv {
			parts[i] = show(e)
		}
		return "(" + strings.Join(parts, " ") + ")"
	}
	return fmt.Sprintf("?%v", v)
}

// ---- world --------------------------------------------------------------

type mkey struct {
	f    int
	kind string
	msg  string
}

type tm struct {
	t   int
	msg string
}

// late levels of a (flavor, message) table
const (
	lateNo   = 0 // every inherited daemon existed when the flavor was defined
	lateUpd  = 1 // a daemon was added to a component that already had one for the message
	lateTail = 2 // a component got its first daemon for the message after the flavor was defined; nothing follows it in precedence
	lateMid  = 3 // same, and flavors later in precedence already had daemons for the message
)

var lateNames = []string{"n", "upd", "tail", "mid"}

// world is the model state while stepping through a history.
type world struct {
	c       *Case
	defined []bool
	meth    map[mkey]int // version (1 = first definition)
	stop    map[mkey]bool
	errm    map[mkey]bool
	relay   map[mkey]bool
	twice   map[mkey]bool
	late    map[tm]int
	// foreign: the table got a component's first daemon for the message from a
	// form evaluated in the other package
	foreign map[tm]bool
	precs   map[int][]int
	// shared: flavors whose precedence walk reached some flavor a second time
	shared map[int]bool
}

func newWorld(c *Case) *world {
	return &world{c: c, defined: make([]bool, len(c.Flavors)), meth: map[mkey]int{}, stop: map[mkey]bool{}, errm: map[mkey]bool{},
		relay: map[mkey]bool{}, twice: map[mkey]bool{}, late: map[tm]int{}, foreign: map[tm]bool{}, precs: map[int][]int{}, shared: map[int]bool{}}
}

// prec is the precedence list of flavor t (indices), without vanilla.
func (w *world) prec(t int) []int {
	if p, ok := w.precs[t]; ok {
		return p
	}
	var out []int
	seen := map[int]bool{}
	var visit func(f int)
	visit = func(f int) {
		if seen[f] {
			w.shared[t] = true
			return
		}
		seen[f] = true
		out = append(out, f)
		for _, c := range w.c.Flavors[f].Comps {
			visit(c)
		}
		// an included flavor that is not a component otherwise follows the
		// components of the flavor that includes it
		for _, c := range w.c.Flavors[f].Incl {
			visit(c)
		}
	}
	visit(t)
	w.precs[t] = out
	return out
}

func has(list []string, s string) bool {
	for _, x := range list {
		if x == s {
			return true
		}
	}
	return false
}

// accessor tells whether flavor f's defflavor itself defines a primary for msg
// (a getter :v or a setter :set-v); returns the variable name.
func (w *world) accessor(f int, msg string) (kind, v string) {
	fl := &w.c.Flavors[f]
	// the bare option: "a getter/setter method for each variable" of the
	// flavor, inherited ones included; the list form: the listed variables
	if strings.HasPrefix(msg, "set-") {
		v = msg[4:]
		if (fl.SetAll && w.hasVar(f, v)) || (fl.ownVar(v) && has(fl.Set, v)) {
			return "set", v
		}
		return "", ""
	}
	if (fl.GetAll && w.hasVar(f, msg)) || (fl.ownVar(msg) && has(fl.Get, msg)) {
		return "get", msg
	}
	return "", ""
}

// hasVar: some flavor in the precedence of f declares variable v.
func (w *world) hasVar(f int, v string) bool {
	for _, g := range w.prec(f) {
		if w.c.Flavors[g].ownVar(v) {
			return true
		}
	}
	return false
}

func (fl *Flavor) ownVar(name string) bool {
	for _, v := range fl.Vars {
		if v.name() == name {
			return true
		}
	}
	return false
}

// hasCombo: flavor f contributes at least one daemon for msg right now.
func (w *world) hasCombo(f int, msg string) bool {
	if f == vanillaIdx {
		return msg == "init"
	}
	if !w.defined[f] {
		return false
	}
	if k, _ := w.accessor(f, msg); k != "" {
		return true
	}
	for _, kind := range []string{"primary", "before", "after", "whopper"} {
		if 0 < w.meth[mkey{f, kind, msg}] {
			return true
		}
	}
	return false
}

// defFlavor: the new flavor's tables are built from its components' tables,
// so it shares their history class.
func (w *world) defFlavor(f int) {
	w.defined[f] = true
	in := map[int]bool{}
	for _, c := range w.prec(f)[1:] {
		in[c] = true
	}
	for k, lv := range w.late {
		if in[k.t] && w.late[tm{f, k.msg}] < lv {
			w.late[tm{f, k.msg}] = lv
		}
	}
	for k, fg := range w.foreign {
		if fg && in[k.t] {
			w.foreign[tm{f, k.msg}] = true
		}
	}
}

// foreignFlavor: some table of flavor t got a late daemon from the other package.
func (w *world) foreignFlavor(t int) bool {
	for k, fg := range w.foreign {
		if fg && k.t == t {
			return true
		}
	}
	return false
}

// defMethod records a method definition and classifies what it means for the
// tables of the flavors that already inherit from its flavor.
func (w *world) defMethod(m Method, pkg int) {
	first := !w.hasCombo(m.F, m.Msg)
	w.meth[mkey{m.F, m.Kind, m.Msg}]++
	w.stop[mkey{m.F, m.Kind, m.Msg}] = m.Stop
	w.errm[mkey{m.F, m.Kind, m.Msg}] = m.Err
	w.relay[mkey{m.F, m.Kind, m.Msg}] = m.Relay
	w.twice[mkey{m.F, m.Kind, m.Msg}] = m.Twice
	for t := range w.c.Flavors {
		if !w.defined[t] || t == m.F {
			continue
		}
		p := w.prec(t)
		pos := -1
		for i, f := range p {
			if f == m.F {
				pos = i
			}
		}
		if pos < 0 {
			continue
		}
		lv := lateUpd
		if first {
			lv = lateTail
			for _, f := range append(append([]int{}, p[pos+1:]...), vanillaIdx) {
				if w.hasCombo(f, m.Msg) {
					lv = lateMid
				}
			}
		}
		if w.late[tm{t, m.Msg}] < lv {
			w.late[tm{t, m.Msg}] = lv
		}
		if first && pkg != 0 {
			w.foreign[tm{t, m.Msg}] = true
		}
	}
}

// inst is the model of one instance.
type inst struct {
	t    int
	vars map[string]val
}

// newInst: defaults by first occurrence in precedence; keyword arguments
// naming a variable replace its default, the others form the plist for :init.
func (w *world) newInst(t int, kv []kwarg) (in *inst, plist val) {
	in = &inst{t: t, vars: map[string]val{}}
	// the default of a variable is given by the first flavor in precedence
	// that gives one; a flavor naming the variable without a default gives none
	given := map[string]bool{}
	for _, f := range w.prec(t) {
		for _, v := range w.c.Flavors[f].Vars {
			if _, has := in.vars[v.name()]; !has {
				in.vars[v.name()] = nil
			}
			if !v.noDefault() && !given[v.name()] {
				given[v.name()] = true
				if v.Nil {
					in.vars[v.name()] = nil
				} else {
					in.vars[v.name()] = v.D
				}
			}
		}
	}
	var pl []val
	for _, a := range kv {
		if _, has := in.vars[a.key]; has {
			in.vars[a.key] = a.v
		} else {
			pl = append(pl, sym(":"+a.key), a.v)
		}
	}
	if 0 < len(pl) {
		plist = pl
	}
	return
}

type kwarg struct {
	key string
	v   int
}

// varNames is the sorted variable set of an instance.
func (in *inst) varNames() []string {
	var ns []string
	for k := range in.vars {
		ns = append(ns, k)
	}
	sort.Strings(ns)
	return ns
}

// expect is what the model says a send does.
type expect struct {
	handled   bool
	whopIn    []string // whopper entry markers, outermost first
	before    []string
	prims     []string // markers of the user primary that ran (once per pass through the combination)
	after     []string
	whopOut   []string
	hasPrim   bool
	result    val
	nFlavors  int // flavors contributing daemons
	nDaemons  int
	nWhoppers int
	stopped   bool
	// errs: a daemon signals an error; the trace ends with its marker, the
	// send signals the error and nothing after that daemon takes effect
	errs bool
	// full: every marker in the order it has to appear, the nested sends of
	// relaying daemons included (between "<F" and ">F")
	full []string
	// nested: what the nested sends of relaying daemons do, in order
	nested []*expect
	// primCand: flavors in precedence that offer a primary (user or accessor)
	primCand int
	// primKind: user, accessor, vanilla or none
	primKind string
}

func (e *expect) trace() []string { return e.full }

func (e *expect) emit(m string) { e.full = append(e.full, m) }

func marker(tag string, f, ver int, ar int, arg val) string {
	s := fmt.Sprintf("%s%d.%d", tag, f, ver)
	if 0 < ar {
		s += ":" + show(arg)
	}
	return s
}

// relayNested: the daemon of flavor f sends msg to self once more with (r arg);
// false when the nested send signals an error (which then ends the outer one).
func (w *world) relayNested(e *expect, in *inst, msg string, f int, arg val) bool {
	e.emit("<" + strconv.Itoa(f))
	ne := w.send(in, msg, []val{sym("r"), arg})
	e.nested = append(e.nested, ne)
	e.full = append(e.full, ne.full...)
	if ne.errs {
		return false
	}
	e.emit(">" + strconv.Itoa(f))
	return true
}

// send computes the expected daemon sequence, result and state change of
// sending msg (with arg, when the message takes one) to instance in.
func (w *world) send(in *inst, msg string, arg val) *expect {
	e := &expect{primKind: "none"}
	ar := arity(msg)
	p := w.prec(in.t)
	contrib := map[int]bool{}
	type wh struct{ f, ver int }
	var whops []wh
	for _, f := range p {
		if ver := w.meth[mkey{f, "whopper", msg}]; 0 < ver {
			whops = append(whops, wh{f, ver})
		}
	}
	relays := func(key mkey, a val) bool {
		_, num := a.(int)
		return w.relay[key] && 0 < ar && num
	}
	for _, f := range p {
		if 0 < w.meth[mkey{f, "primary", msg}] {
			e.primCand++
		} else if k, _ := w.accessor(f, msg); k != "" {
			e.primCand++
		}
	}
	entered := 0
	// inner: every :before in precedence order, the first primary, every
	// :after in reverse order; false when a daemon signals an error
	inner := func(arg val) (result val, ok bool) {
		for _, f := range p {
			key := mkey{f, "before", msg}
			if ver := w.meth[key]; 0 < ver {
				mk := marker("b", f, ver, ar, arg)
				e.before = append(e.before, mk)
				e.emit(mk)
				contrib[f] = true
				if w.errm[key] {
					return nil, false
				}
				if relays(key, arg) && !w.relayNested(e, in, msg, f, arg) {
					return nil, false
				}
			}
		}
		for _, f := range append(append([]int{}, p...), vanillaIdx) {
			if f == vanillaIdx {
				if msg == "init" {
					e.hasPrim = true
					e.handled = true
					e.primKind = "vanilla"
				}
				break
			}
			if ver := w.meth[mkey{f, "primary", msg}]; 0 < ver {
				mk := marker("p", f, ver, ar, arg)
				e.prims = append(e.prims, mk)
				e.emit(mk)
				e.hasPrim = true
				e.primKind = "user"
				if 0 < ar {
					result = []val{f, ver, arg}
				} else {
					result = []val{f, ver}
				}
				contrib[f] = true
				if w.errm[mkey{f, "primary", msg}] {
					return nil, false
				}
				break
			}
			if k, v := w.accessor(f, msg); k != "" {
				e.hasPrim = true
				e.primKind = "accessor"
				if k == "get" {
					result = in.vars[v]
				} else {
					in.vars[v] = arg
					result = arg
				}
				contrib[f] = true
				break
			}
		}
		for i := len(p) - 1; 0 <= i; i-- {
			f := p[i]
			if ver := w.meth[mkey{f, "after", msg}]; 0 < ver {
				mk := marker("a", f, ver, ar, arg)
				e.after = append(e.after, mk)
				e.emit(mk)
				contrib[f] = true
				if w.errm[mkey{f, "after", msg}] {
					return nil, false
				}
			}
		}
		return result, true
	}
	// run: whopper i around everything that follows it
	var run func(i int, arg val) (val, bool)
	run = func(i int, arg val) (val, bool) {
		if i == len(whops) {
			return inner(arg)
		}
		wp := whops[i]
		key := mkey{wp.f, "whopper", msg}
		if entered < i+1 {
			entered = i + 1
		}
		contrib[wp.f] = true
		mk := marker("w", wp.f, wp.ver, ar, arg)
		e.whopIn = append(e.whopIn, mk)
		e.emit(mk)
		if w.errm[key] {
			return nil, false
		}
		if relays(key, arg) && !w.relayNested(e, in, msg, wp.f, arg) {
			return nil, false
		}
		xm := fmt.Sprintf("x%d.%d", wp.f, wp.ver)
		if w.stop[key] {
			// returns without continuing: nothing inside it runs
			e.stopped = true
			e.hasPrim = true
			e.whopOut = append(e.whopOut, xm)
			e.emit(xm)
			return []val{sym("s"), wp.f}, true
		}
		next := arg
		if 0 < ar {
			next = []val{wp.f, arg}
		}
		if w.twice[key] {
			if _, ok := run(i+1, next); !ok {
				return nil, false
			}
		}
		r, ok := run(i+1, next)
		if !ok {
			return nil, false
		}
		e.whopOut = append(e.whopOut, xm)
		e.emit(xm)
		return []val{sym("w"), wp.f, r}, true
	}
	res, ok := run(0, arg)
	e.nFlavors = len(contrib)
	e.nWhoppers = entered
	e.nDaemons = len(e.whopIn) + len(e.before) + len(e.after) + len(e.prims)
	if 0 < len(contrib) {
		e.handled = true
	}
	if !ok {
		e.errs = true
		e.handled = true
		e.hasPrim = false
		e.result = nil
		return e
	}
	e.result = res
	return e
}

// defaultSource: the index in the precedence list of t of the flavor that gives
// variable v its default (-1: none does) and the number of flavors giving one.
func (w *world) defaultSource(t int, v string) (at, givers int) {
	at = -1
	for i, f := range w.prec(t) {
		for _, fv := range w.c.Flavors[f].Vars {
			if fv.name() == v && !fv.noDefault() {
				if at < 0 {
					at = i
				}
				givers++
			}
		}
	}
	return
}

// keySource: the index in the precedence list of t of the flavor that gives the
// init keyword its entry, and the number of flavors that have one.
func (w *world) keySource(t int, name string) (at, givers int) {
	at = -1
	for i, f := range w.prec(t) {
		for _, k := range w.c.Flavors[f].Keys {
			if "k"+strconv.Itoa(k.N) == name {
				if at < 0 {
					at = i
				}
				givers++
			}
		}
	}
	return
}

// mustAcceptVar: (make-instance t :<v> x) has to be accepted: some flavor in
// precedence lists v as initable, or no flavor in precedence restricts the
// initable variables at all (slip documents that then every variable is).
func (w *world) mustAcceptVar(t int, v string) bool {
	restricted := false
	for _, f := range w.prec(t) {
		fl := &w.c.Flavors[f]
		if fl.IniAll || 0 < len(fl.Ini) {
			restricted = true
			if (fl.IniAll && w.hasVar(f, v)) || (fl.ownVar(v) && has(fl.Ini, v)) {
				return true
			}
		}
	}
	return !restricted
}

// keys gives the init keywords of t with their defaults (first in precedence).
func (w *world) keys(t int) map[string]val {
	out := map[string]val{}
	for _, f := range w.prec(t) {
		for _, k := range w.c.Flavors[f].Keys {
			name := "k" + strconv.Itoa(k.N)
			if _, has := out[name]; !has {
				if k.NoDef {
					out[name] = nil
				} else {
					out[name] = k.D
				}
			}
		}
	}
	return out
}
