package c11

import (
	"fmt"
	"math/rand/v2"
	"sort"
	"strconv"
)

var kinds = []string{"primary", "before", "after", "whopper"}

// ---- templates: small hierarchies whose every admissible history is run ----

type tmpl struct {
	name    string
	flavors []Flavor
	methods []Method
}

func fl(comps ...int) Flavor { return Flavor{Comps: comps} }

var shapes = []struct {
	name    string
	flavors []Flavor
	// sets of flavors that get a method
	on [][]int
}{
	{"siblings", []Flavor{fl(), fl(), fl(0, 1)}, [][]int{{0, 1}, {0, 1, 2}}},
	{"siblings-rev", []Flavor{fl(), fl(), fl(1, 0)}, [][]int{{0, 1}}},
	{"chain", []Flavor{fl(), fl(0), fl(1)}, [][]int{{0, 1}, {0, 1, 2}}},
	{"two-users", []Flavor{fl(), fl(0), fl(0)}, [][]int{{0, 1}, {0, 2}}},
	{"diamond", []Flavor{fl(), fl(0), fl(0), fl(1, 2)}, [][]int{{0, 2}, {1, 2}, {0, 1}}},
	{"triple", []Flavor{fl(), fl(), fl(), fl(0, 1, 2)}, [][]int{{0, 1, 2}}},
	{"deep-sibling", []Flavor{fl(), fl(0), fl(), fl(1, 2)}, [][]int{{0, 2}, {0, 1, 2}}},
	{"diamond3", []Flavor{fl(), fl(0), fl(0), fl(1, 2)}, [][]int{{0, 1, 2}}},
	{"cross", []Flavor{fl(), fl(), fl(0, 1), fl(1, 0), fl(2, 3)}, [][]int{{0, 1}}},
}

func buildTemplates(tier string) []tmpl {
	var out []tmpl
	for _, sh := range shapes {
		for si, on := range sh.on {
			for _, kind := range kinds {
				var ms []Method
				for _, f := range on {
					ms = append(ms, Method{F: f, Kind: kind, Msg: "m"})
				}
				out = append(out, tmpl{name: fmt.Sprintf("%s/%d/%s", sh.name, si, kind), flavors: sh.flavors, methods: ms})
			}
		}
	}
	// mixed kinds on siblings and on a diamond
	out = append(out,
		tmpl{"siblings/mixed", shapes[0].flavors, []Method{{0, "before", "m"}, {1, "after", "m"}, {1, "primary", "m"}}},
		tmpl{"siblings/mixed2", shapes[0].flavors, []Method{{0, "after", "m"}, {1, "after", "m"}, {0, "primary", "m"}}},
		tmpl{"diamond/mixed", shapes[4].flavors, []Method{{0, "primary", "m"}, {2, "before", "m"}, {1, "whopper", "m"}}},
		// a vanilla message: the primary of the second component
		tmpl{"siblings/init", shapes[0].flavors, []Method{{1, "primary", "init"}}},
		tmpl{"siblings/init2", shapes[0].flavors, []Method{{0, "before", "init"}, {1, "primary", "init"}}},
		tmpl{"siblings/init3", shapes[0].flavors, []Method{{2, "whopper", "init"}, {1, "primary", "init"}}},
		// an initable variable of a component, the user restricts its own
		tmpl{"chain/initable", []Flavor{
			{Vars: []Var{{N: 0, D: 10}}, Get: []string{"v0"}, Ini: []string{"v0"}},
			{Comps: []int{0}, Vars: []Var{{N: 1, D: 21}}, Ini: []string{"v1"}}},
			[]Method{{0, "before", "v0"}}},
		tmpl{"chain/init", shapes[2].flavors, []Method{{0, "primary", "init"}, {1, "after", "init"}}},
		// accessors inherited from two components, daemons on an accessor
		tmpl{"siblings/getter", []Flavor{
			{Vars: []Var{{N: 0, D: 10}}, Get: []string{"v0"}},
			{Vars: []Var{{N: 0, D: 20}, {N: 1, D: 21}}, Get: []string{"v0", "v1"}, Set: []string{"v1"}},
			{Comps: []int{0, 1}}},
			[]Method{{0, "before", "v1"}, {1, "after", "v1"}, {0, "whopper", "set-v1"}}},
		tmpl{"siblings-rev/getter", []Flavor{
			{Vars: []Var{{N: 0, D: 10}}, Get: []string{"v0"}, Keys: []Key{{N: 0, D: 5}}},
			{Vars: []Var{{N: 0, D: 20}, {N: 1, D: 21}}, Get: []string{"v0", "v1"}, Keys: []Key{{N: 0, D: 6}, {N: 2, NoDef: true}}},
			{Comps: []int{1, 0}, Vars: []Var{{N: 1, D: 31}}}},
			[]Method{{1, "primary", "v0"}, {0, "before", "v0"}}},
	)
	return out
}

// extensions enumerates every admissible order of the flavor and method forms
// ("components before users", a method after its flavor), up to limit.
func extensions(t *tmpl, limit int) [][]Step {
	nf, nm := len(t.flavors), len(t.methods)
	doneF := make([]bool, nf)
	doneM := make([]bool, nm)
	var cur []Step
	var out [][]Step
	var rec func()
	rec = func() {
		if limit <= len(out) {
			return
		}
		if len(cur) == nf+nm {
			out = append(out, append([]Step{}, cur...))
			return
		}
		for f := 0; f < nf; f++ {
			if doneF[f] {
				continue
			}
			ok := true
			for _, c := range t.flavors[f].Comps {
				if !doneF[c] {
					ok = false
				}
			}
			if !ok {
				continue
			}
			doneF[f] = true
			cur = append(cur, Step{Op: "flavor", F: f})
			rec()
			cur = cur[:len(cur)-1]
			doneF[f] = false
		}
		for m := 0; m < nm; m++ {
			if doneM[m] || !doneF[t.methods[m].F] {
				continue
			}
			doneM[m] = true
			cur = append(cur, Step{Op: "method", M: m})
			rec()
			cur = cur[:len(cur)-1]
			doneM[m] = false
		}
	}
	rec()
	return out
}

type block struct {
	cases []Case
}

var blocks = map[string]*block{}

func tmplBlock(tier string) *block {
	if b, ok := blocks[tier]; ok {
		return b
	}
	b := &block{}
	limit := 400
	if tier == "thorough" {
		limit = 6000
	}
	for _, t := range buildTemplates(tier) {
		t := t
		for _, steps := range extensions(&t, limit) {
			b.cases = append(b.cases, Case{Tmpl: t.name, Flavors: t.flavors, Methods: t.methods, Steps: steps})
		}
	}
	blocks[tier] = b
	return b
}

func nCases(tier string) int {
	n := len(tmplBlock(tier).cases)
	if tier == "thorough" {
		return n + 150000
	}
	return n + 12000
}

// ---- seeded cases -------------------------------------------------------

func weighted(r *rand.Rand, w []int) int {
	t := 0
	for _, x := range w {
		t += x
	}
	k := r.IntN(t)
	for i, x := range w {
		if k < x {
			return i
		}
		k -= x
	}
	return len(w) - 1
}

func gen(r *rand.Rand, i int, tier string) Case {
	b := tmplBlock(tier)
	if i < len(b.cases) {
		return b.cases[i]
	}
	var c Case
	nf := 1 + weighted(r, []int{1, 3, 6, 7, 7})
	for k := 0; k < nf; k++ {
		var f Flavor
		if 0 < k && r.IntN(5) != 0 {
			mx := 3
			if k < mx {
				mx = k
			}
			nc := 1 + weighted(r, []int{5, 4, 2}[:mx])
			perm := r.Perm(k)
			f.Comps = append(f.Comps, perm[:nc]...)
		}
		// variables
		for n := 0; n < 3; n++ {
			if r.IntN(4) == 0 {
				f.Vars = append(f.Vars, Var{N: n, D: 100*(k+1) + n})
			}
		}
		if r.IntN(10) == 0 {
			f.Vars = append(f.Vars, Var{N: 0, Bare: true})
		}
		for _, v := range f.Vars {
			if r.IntN(2) == 0 {
				f.Get = append(f.Get, v.name())
			}
			if r.IntN(3) == 0 {
				f.Set = append(f.Set, v.name())
			}
		}
		if len(f.Comps) == 0 && 0 < len(f.Vars) {
			// the bare options: only where "all variables" can only mean the flavor's own
			if r.IntN(4) == 0 {
				f.GetAll, f.Get = true, nil
			}
			if r.IntN(6) == 0 {
				f.SetAll, f.Set = true, nil
			}
		}
		if 0 < len(f.Vars) && r.IntN(7) == 0 {
			if len(f.Comps) == 0 && r.IntN(3) == 0 {
				f.IniAll = true
			} else {
				f.Ini = append(f.Ini, f.Vars[r.IntN(len(f.Vars))].name())
			}
		}
		if r.IntN(4) == 0 {
			n := r.IntN(2)
			f.Keys = append(f.Keys, Key{N: n, D: 10*(k+1) + n})
			if r.IntN(3) == 0 {
				f.Keys = append(f.Keys, Key{N: 2 + r.IntN(2), NoDef: true})
			}
		}
		c.Flavors = append(c.Flavors, f)
	}
	// accessor names that exist somewhere in the case
	var getters, setters []string
	seenA := map[string]bool{}
	for _, f := range c.Flavors {
		for _, v := range f.Vars {
			if (f.GetAll || has(f.Get, v.name())) && !seenA[v.name()] {
				seenA[v.name()] = true
				getters = append(getters, v.name())
			}
			if (f.SetAll || has(f.Set, v.name())) && !seenA["set-"+v.name()] {
				seenA["set-"+v.name()] = true
				setters = append(setters, "set-"+v.name())
			}
		}
	}
	sort.Strings(getters)
	sort.Strings(setters)
	nm := 2 + r.IntN(11)
	dense := r.IntN(4) == 0 // every method on :m, two or three per flavor
	if dense {
		nm = 2*nf + r.IntN(nf+1)
	}
	seenM := map[Method]bool{}
	for k := 0; k < nm; k++ {
		m := Method{F: r.IntN(nf), Kind: kinds[weighted(r, []int{3, 3, 3, 2})]}
		sel := weighted(r, []int{62, 8, 10, 7, 13})
		if dense {
			sel = 0
		}
		switch sel {
		case 0:
			m.Msg = "m"
		case 1:
			m.Msg = "n"
		case 2:
			if 0 < len(getters) {
				m.Msg = fw_pick(r, getters)
			} else {
				m.Msg = "m"
			}
		case 3:
			if 0 < len(setters) {
				m.Msg = fw_pick(r, setters)
			} else {
				m.Msg = "m"
			}
		default:
			m.Msg = "init"
		}
		if seenM[m] {
			continue
		}
		seenM[m] = true
		c.Methods = append(c.Methods, m)
	}
	// history: a random admissible order under one of three biases
	mode := weighted(r, []int{4, 3, 3}) // 0 uniform, 1 methods early, 2 flavors first
	doneF := make([]bool, nf)
	doneM := make([]bool, len(c.Methods))
	total := nf + len(c.Methods)
	for len(c.Steps) < total {
		var availF, availM []int
		for f := 0; f < nf; f++ {
			if doneF[f] {
				continue
			}
			ok := true
			for _, cp := range c.Flavors[f].Comps {
				if !doneF[cp] {
					ok = false
				}
			}
			if ok {
				availF = append(availF, f)
			}
		}
		for m := range c.Methods {
			if !doneM[m] && doneF[c.Methods[m].F] {
				availM = append(availM, m)
			}
		}
		pickF := false
		switch {
		case len(availM) == 0:
			pickF = true
		case len(availF) == 0:
			pickF = false
		case mode == 1:
			pickF = r.IntN(8) == 0
		case mode == 2:
			pickF = r.IntN(8) != 0
		default:
			pickF = r.IntN(len(availF)+len(availM)) < len(availF)
		}
		if pickF {
			f := fw_pick(r, availF)
			doneF[f] = true
			c.Steps = append(c.Steps, Step{Op: "flavor", F: f})
		} else {
			m := fw_pick(r, availM)
			doneM[m] = true
			c.Steps = append(c.Steps, Step{Op: "method", M: m})
		}
	}
	// redefinition of a method (minority)
	if 0 < len(c.Methods) && r.IntN(6) == 0 {
		m := r.IntN(len(c.Methods))
		at := 0
		for i, s := range c.Steps {
			if s.Op == "method" && s.M == m {
				at = i
			}
		}
		pos := at + 1 + r.IntN(len(c.Steps)-at)
		c.Steps = insertStep(c.Steps, pos, Step{Op: "method", M: m})
	}
	// instances made in the middle of the history, and sends to them
	if r.IntN(2) == 0 {
		msgs := messageUniverse(&c)
		for n := 1 + r.IntN(2); 0 < n; n-- {
			f := r.IntN(nf)
			made := false
			for _, s := range c.Steps {
				if s.Op == "inst" && s.F == f {
					made = true
				}
			}
			if made {
				continue
			}
			at := 0
			for i, s := range c.Steps {
				if s.Op == "flavor" && s.F == f {
					at = i
				}
			}
			pos := at + 1 + r.IntN(len(c.Steps)-at)
			c.Steps = insertStep(c.Steps, pos, Step{Op: "inst", F: f})
			for k := r.IntN(3); 0 < k && 0 < len(msgs); k-- {
				p2 := pos + 1 + r.IntN(len(c.Steps)-pos)
				c.Steps = insertStep(c.Steps, p2, Step{Op: "send", F: f, Msg: fw_pick(r, msgs)})
			}
		}
	}
	return c
}

func insertStep(steps []Step, pos int, s Step) []Step {
	out := make([]Step, 0, len(steps)+1)
	out = append(out, steps[:pos]...)
	out = append(out, s)
	out = append(out, steps[pos:]...)
	return out
}

func fw_pick[T any](r *rand.Rand, xs []T) T { return xs[r.IntN(len(xs))] }

// messageUniverse lists the messages worth sending in a case, in sweep
// order: user messages, getters, setters, the getters again, :init.
func messageUniverse(c *Case) []string {
	user := map[string]bool{}
	get := map[string]bool{}
	set := map[string]bool{}
	init := false
	classify := func(msg string) {
		switch {
		case msg == "init":
			init = true
		case len(msg) > 4 && msg[:4] == "set-":
			set[msg] = true
		case arity(msg) == 0:
			get[msg] = true
		default:
			user[msg] = true
		}
	}
	for _, m := range c.Methods {
		classify(m.Msg)
	}
	for _, f := range c.Flavors {
		for _, v := range f.Vars {
			if f.GetAll || has(f.Get, v.name()) {
				get[v.name()] = true
			}
			if f.SetAll || has(f.Set, v.name()) {
				set["set-"+v.name()] = true
			}
		}
	}
	keys := func(m map[string]bool) []string {
		var ks []string
		for k := range m {
			ks = append(ks, k)
		}
		sort.Strings(ks)
		return ks
	}
	var out []string
	out = append(out, keys(user)...)
	g := keys(get)
	out = append(out, g...)
	s := keys(set)
	out = append(out, s...)
	if 0 < len(s) {
		out = append(out, g...)
	}
	if init {
		out = append(out, "init")
	}
	return out
}

var _ = strconv.Itoa
