package c11

import (
	"fmt"
	"math/rand/v2"
	"sort"
	"strconv"
	"strings"
)

var kinds = []string{"primary", "before", "after", "whopper"}

// ---- templates: small hierarchies whose every admissible history is run ----

type tmpl struct {
	name    string
	flavors []Flavor
	methods []Method
}

// templates named holders/...: not the first `limit` admissible histories but
// holderSpread histories spread evenly over (up to 6000 of) them
func holderSpread(tier string) int {
	if tier == "thorough" {
		return 120
	}
	return 10
}

func fl(comps ...int) Flavor { return Flavor{Comps: comps} }

var shapes = []struct {
	name    string
	flavors []Flavor
	// sets of flavors that get a method
	on [][]int
}{
	{"siblings", []Flavor{fl(), fl(), fl(0, 1)}, [][]int{{0, 1}, {0, 1, 2}}},
	{"siblings-rev", []Flavor{fl(), fl(), fl(1, 0)}, [][]int{{0, 1}}},
	{"chain", []Flavor{fl(), fl(0), fl(1)}, [][]int{{0, 1}, {0, 1, 2}}},
	{"two-users", []Flavor{fl(), fl(0), fl(0)}, [][]int{{0, 1}, {0, 2}}},
	{"diamond", []Flavor{fl(), fl(0), fl(0), fl(1, 2)}, [][]int{{0, 2}, {1, 2}, {0, 1}}},
	{"triple", []Flavor{fl(), fl(), fl(), fl(0, 1, 2)}, [][]int{{0, 1, 2}}},
	{"deep-sibling", []Flavor{fl(), fl(0), fl(), fl(1, 2)}, [][]int{{0, 2}, {0, 1, 2}}},
	{"diamond3", []Flavor{fl(), fl(0), fl(0), fl(1, 2)}, [][]int{{0, 1, 2}}},
	{"cross", []Flavor{fl(), fl(), fl(0, 1), fl(1, 0), fl(2, 3)}, [][]int{{0, 1}}},
}

func buildTemplates(tier string) []tmpl {
	var out []tmpl
	for _, sh := range shapes {
		for si, on := range sh.on {
			for _, kind := range kinds {
				var ms []Method
				for _, f := range on {
					ms = append(ms, Method{F: f, Kind: kind, Msg: "m"})
				}
				out = append(out, tmpl{name: fmt.Sprintf("%s/%d/%s", sh.name, si, kind), flavors: sh.flavors, methods: ms})
			}
		}
	}
	// holder subsets: the same method kind on EVERY non-empty subset of the flavors of every
	// shape, on the user message m and on the vanilla message :init (whose combination list ends
	// in vanilla-flavor's primary, so a component's daemon is spliced in before the end): which
	// flavors hold a daemon decides how long each flavor's combination list is when another
	// flavor inherits it, and that a flavor's list is never changed by the flavors that use it
	for _, sh := range shapes {
		nf := len(sh.flavors)
		for mask := 1; mask < 1<<nf; mask++ {
			for _, mk := range []struct{ msg, kind string }{{"init", "before"}, {"init", "after"}, {"m", "before"}, {"m", "after"}, {"m", "primary"}, {"m", "whopper"}} {
				var ms []Method
				for f := 0; f < nf; f++ {
					if mask>>f&1 == 1 {
						ms = append(ms, Method{F: f, Kind: mk.kind, Msg: mk.msg})
					}
				}
				out = append(out, tmpl{name: fmt.Sprintf("holders/%s/%s-%s/%d", sh.name, mk.msg, mk.kind, mask), flavors: sh.flavors, methods: ms})
			}
		}
	}
	// mixed kinds on siblings and on a diamond
	out = append(out,
		tmpl{"siblings/mixed", shapes[0].flavors, []Method{{F: 0, Kind: "before", Msg: "m"}, {F: 1, Kind: "after", Msg: "m"}, {F: 1, Kind: "primary", Msg: "m"}}},
		tmpl{"siblings/mixed2", shapes[0].flavors, []Method{{F: 0, Kind: "after", Msg: "m"}, {F: 1, Kind: "after", Msg: "m"}, {F: 0, Kind: "primary", Msg: "m"}}},
		tmpl{"diamond/mixed", shapes[4].flavors, []Method{{F: 0, Kind: "primary", Msg: "m"}, {F: 2, Kind: "before", Msg: "m"}, {F: 1, Kind: "whopper", Msg: "m"}}},
		// a vanilla message: the primary of the second component
		tmpl{"siblings/init", shapes[0].flavors, []Method{{F: 1, Kind: "primary", Msg: "init"}}},
		tmpl{"siblings/init2", shapes[0].flavors, []Method{{F: 0, Kind: "before", Msg: "init"}, {F: 1, Kind: "primary", Msg: "init"}}},
		tmpl{"siblings/init3", shapes[0].flavors, []Method{{F: 2, Kind: "whopper", Msg: "init"}, {F: 1, Kind: "primary", Msg: "init"}}},
		// an initable variable of a component, the user restricts its own
		tmpl{"chain/initable", []Flavor{
			{Vars: []Var{{N: 0, D: 10}}, Get: []string{"v0"}, Ini: []string{"v0"}},
			{Comps: []int{0}, Vars: []Var{{N: 1, D: 21}}, Ini: []string{"v1"}}},
			[]Method{{F: 0, Kind: "before", Msg: "v0"}}},
		tmpl{"chain/init", shapes[2].flavors, []Method{{F: 0, Kind: "primary", Msg: "init"}, {F: 1, Kind: "after", Msg: "init"}}},
		// accessors inherited from two components, daemons on an accessor
		tmpl{"siblings/getter", []Flavor{
			{Vars: []Var{{N: 0, D: 10}}, Get: []string{"v0"}},
			{Vars: []Var{{N: 0, D: 20}, {N: 1, D: 21}}, Get: []string{"v0", "v1"}, Set: []string{"v1"}},
			{Comps: []int{0, 1}}},
			[]Method{{F: 0, Kind: "before", Msg: "v1"}, {F: 1, Kind: "after", Msg: "v1"}, {F: 0, Kind: "whopper", Msg: "set-v1"}}},
		tmpl{"siblings-rev/getter", []Flavor{
			{Vars: []Var{{N: 0, D: 10}}, Get: []string{"v0"}, Keys: []Key{{N: 0, D: 5}}},
			{Vars: []Var{{N: 0, D: 20}, {N: 1, D: 21}}, Get: []string{"v0", "v1"}, Keys: []Key{{N: 0, D: 6}, {N: 2, NoDef: true}}},
			{Comps: []int{1, 0}, Vars: []Var{{N: 1, D: 31}}}},
			[]Method{{F: 1, Kind: "primary", Msg: "v0"}, {F: 0, Kind: "before", Msg: "v0"}}},
	)
	vr := func(n, d int) Var { return Var{N: n, D: d} }
	kd := func(n, d int) Key { return Key{N: n, D: d} }
	g012 := []string{"v0", "v1", "v2"}
	out = append(out,
		// plain defaults and keyword defaults over a 3-level chain: the nearest flavor wins
		tmpl{"defaults/chain3", []Flavor{
			{Vars: []Var{vr(0, 10), vr(1, 11), vr(2, 12)}, Get: g012, Keys: []Key{kd(0, 15), kd(1, 16)}},
			{Comps: []int{0}, Vars: []Var{vr(0, 20), vr(1, 21)}, Keys: []Key{kd(0, 25)}},
			{Comps: []int{1}, Vars: []Var{vr(0, 30)}}},
			[]Method{{F: 0, Kind: "before", Msg: "v0"}}},
		tmpl{"defaults/chain3-gap", []Flavor{
			{Vars: []Var{vr(0, 10), vr(1, 11)}, Get: []string{"v0", "v1"}, Keys: []Key{kd(0, 15)}},
			{Comps: []int{0}, Vars: []Var{vr(0, 20), vr(1, 21)}, Keys: []Key{kd(0, 25)}},
			{Comps: []int{1}},
			{Comps: []int{2}, Vars: []Var{vr(1, 41)}}},
			[]Method{{F: 1, Kind: "after", Msg: "v1"}}},
		// diamond: depth-first puts the shared base before the second branch
		tmpl{"defaults/diamond", []Flavor{
			{Vars: []Var{vr(0, 10), vr(1, 11), vr(2, 12)}, Get: g012, Keys: []Key{kd(0, 15), kd(1, 16)}},
			{Comps: []int{0}, Vars: []Var{vr(0, 20)}, Keys: []Key{kd(0, 25)}},
			{Comps: []int{0}, Vars: []Var{vr(0, 30), vr(1, 31)}, Keys: []Key{kd(0, 35), kd(1, 36)}},
			{Comps: []int{1, 2}}},
			[]Method{{F: 2, Kind: "before", Msg: "v1"}}},
		tmpl{"defaults/diamond-rev", []Flavor{
			{Vars: []Var{vr(0, 10), vr(1, 11)}, Get: []string{"v0", "v1"}},
			{Comps: []int{0}, Vars: []Var{vr(0, 20)}},
			{Comps: []int{0}, Vars: []Var{vr(0, 30), vr(1, 31)}},
			{Comps: []int{2, 1}, Vars: []Var{vr(2, 42)}}},
			nil},
		tmpl{"defaults/siblings-deep", []Flavor{
			{Vars: []Var{vr(0, 10), vr(1, 11)}, Keys: []Key{kd(0, 15)}},
			{Comps: []int{0}, Vars: []Var{vr(1, 21)}},
			{Vars: []Var{vr(0, 30), vr(1, 31), vr(2, 32)}, Keys: []Key{kd(0, 35), kd(1, 36)}},
			{Comps: []int{1, 2}}, {Comps: []int{2, 1}}},
			nil},
		// a variable named without a default does not give one; (v nil) does
		tmpl{"defaults/no-default-shadow", []Flavor{
			{Vars: []Var{vr(0, 10)}, Get: []string{"v0"}},
			{Comps: []int{0}, Vars: []Var{{N: 0, ND: true}}}},
			nil},
		tmpl{"defaults/no-default-first-component", []Flavor{
			{Vars: []Var{{N: 0, ND: true}, vr(1, 11)}, Get: []string{"v0"}},
			{Vars: []Var{vr(0, 20), vr(1, 21)}},
			{Comps: []int{0, 1}}, {Comps: []int{1, 0}}, {Comps: []int{0, 1}, Vars: []Var{{N: 0, ND: true}, {N: 1, ND: true}}}},
			nil},
		tmpl{"defaults/no-default-chain3", []Flavor{
			{Vars: []Var{vr(0, 10), vr(1, 11)}, GetAll: true},
			{Comps: []int{0}, Vars: []Var{{N: 0, ND: true}, vr(1, 21)}},
			{Comps: []int{1}, Vars: []Var{{N: 0, ND: true}, {N: 1, ND: true}}},
			{Comps: []int{2}, Vars: []Var{vr(0, 40)}}},
			[]Method{{F: 1, Kind: "before", Msg: "v0"}}},
		tmpl{"defaults/explicit-nil", []Flavor{
			{Vars: []Var{vr(0, 10), vr(1, 11)}, Get: []string{"v0", "v1"}},
			{Comps: []int{0}, Vars: []Var{{N: 0, Nil: true}, {N: 1, ND: true}}},
			{Comps: []int{1}, Vars: []Var{{N: 0, ND: true}}},
			{Vars: []Var{{N: 0, Nil: true}}}, {Comps: []int{3, 0}}, {Comps: []int{0, 3}}},
			nil},
		tmpl{"defaults/no-default-anywhere", []Flavor{
			{Vars: []Var{{N: 0, ND: true}}, Get: []string{"v0"}, Set: []string{"v0"}},
			{Comps: []int{0}, Vars: []Var{{N: 0, ND: true}}}},
			nil},
		// initable variables through three levels, a component without the option in between
		tmpl{"initable/chain3", []Flavor{
			{Vars: []Var{vr(0, 10)}, Ini: []string{"v0"}},
			{Comps: []int{0}, Vars: []Var{vr(1, 21)}},
			{Comps: []int{1}, Vars: []Var{vr(2, 32)}, Ini: []string{"v2"}},
			{Comps: []int{2}, Vars: []Var{vr(0, 40)}, Ini: []string{"v0"}}},
			nil},
		tmpl{"initable/siblings", []Flavor{
			{Vars: []Var{vr(0, 10)}},
			{Vars: []Var{vr(1, 21), vr(2, 22)}, Ini: []string{"v1"}},
			{Comps: []int{0, 1}, Vars: []Var{vr(2, 32)}, Ini: []string{"v2"}},
			{Comps: []int{1, 0}}},
			nil},
		// the bare options on flavors with components: accessors for inherited variables
		tmpl{"bare/chain", []Flavor{
			{Vars: []Var{vr(0, 10), vr(1, 11)}},
			{Comps: []int{0}, Vars: []Var{vr(2, 22)}, GetAll: true, SetAll: true},
			{Comps: []int{1}}},
			[]Method{{F: 0, Kind: "before", Msg: "v0"}, {F: 2, Kind: "after", Msg: "set-v1"}}},
		tmpl{"bare/siblings", []Flavor{
			{Vars: []Var{vr(0, 10)}, Get: []string{"v0"}},
			{Vars: []Var{vr(0, 20), vr(1, 21)}},
			{Comps: []int{1}, GetAll: true, IniAll: true},
			{Comps: []int{0, 2}}},
			[]Method{{F: 0, Kind: "primary", Msg: "v1"}, {F: 1, Kind: "before", Msg: "v0"}}},
		tmpl{"bare/initable", []Flavor{
			{Vars: []Var{vr(0, 10)}, Ini: []string{"v0"}},
			{Comps: []int{0}, Vars: []Var{vr(1, 21)}, IniAll: true},
			{Comps: []int{1}, Vars: []Var{vr(2, 32)}}},
			nil},
		// whoppers that do not continue
		tmpl{"stop/siblings", shapes[0].flavors, []Method{{F: 0, Kind: "whopper", Msg: "m", Stop: true}, {F: 1, Kind: "before", Msg: "m"}, {F: 1, Kind: "primary", Msg: "m"}}},
		tmpl{"stop/inner", shapes[0].flavors, []Method{{F: 2, Kind: "whopper", Msg: "m"}, {F: 1, Kind: "whopper", Msg: "m", Stop: true}, {F: 0, Kind: "after", Msg: "m"}}},
		tmpl{"stop/chain3", shapes[2].flavors, []Method{{F: 2, Kind: "whopper", Msg: "m"}, {F: 1, Kind: "whopper", Msg: "m", Stop: true}, {F: 0, Kind: "whopper", Msg: "m"}}},
		tmpl{"stop/setter", []Flavor{
			{Vars: []Var{vr(0, 10)}, Get: []string{"v0"}, Set: []string{"v0"}},
			{Comps: []int{0}}},
			[]Method{{F: 1, Kind: "whopper", Msg: "set-v0", Stop: true}, {F: 0, Kind: "before", Msg: "set-v0"}}},
		// daemons that signal an error: the send fails, what ran before stays done
		tmpl{"error/before", shapes[0].flavors, []Method{{F: 0, Kind: "before", Msg: "m"}, {F: 1, Kind: "before", Msg: "m", Err: true}, {F: 2, Kind: "primary", Msg: "m"}}},
		tmpl{"error/primary", shapes[0].flavors, []Method{{F: 0, Kind: "whopper", Msg: "m"}, {F: 1, Kind: "primary", Msg: "m", Err: true}, {F: 0, Kind: "after", Msg: "m"}}},
		tmpl{"error/whopper", shapes[2].flavors, []Method{{F: 2, Kind: "whopper", Msg: "m"}, {F: 1, Kind: "whopper", Msg: "m", Err: true}, {F: 0, Kind: "before", Msg: "m"}}},
		tmpl{"error/after-setter", []Flavor{
			{Vars: []Var{vr(0, 10)}, Get: []string{"v0"}, Set: []string{"v0"}},
			{Vars: []Var{vr(1, 21)}, Get: []string{"v1"}, Set: []string{"v1"}},
			{Comps: []int{0, 1}}},
			[]Method{{F: 1, Kind: "after", Msg: "set-v0", Err: true}, {F: 2, Kind: "before", Msg: "set-v1", Err: true}, {F: 0, Kind: "after", Msg: "v0", Err: true}}},
		// :included-flavors: the included flavor follows the includer's components
		tmpl{"included/siblings", []Flavor{
			{Vars: []Var{vr(0, 10)}, Get: []string{"v0"}},
			{Vars: []Var{vr(0, 20), vr(1, 21)}, Get: []string{"v1"}},
			{Vars: []Var{vr(0, 30)}, Incl: []int{0}},
			{Comps: []int{2, 1}}},
			[]Method{{F: 0, Kind: "before", Msg: "m"}, {F: 1, Kind: "before", Msg: "m"}}},
		tmpl{"included/last", []Flavor{
			{Vars: []Var{vr(0, 10)}, Get: []string{"v0"}},
			{}, {Incl: []int{0}}, {Comps: []int{1, 2}}},
			[]Method{{F: 0, Kind: "after", Msg: "m"}, {F: 1, Kind: "after", Msg: "m"}, {F: 2, Kind: "primary", Msg: "m"}}},
		// an abstract component with requirements that are met
		tmpl{"abstract/required-met", []Flavor{
			{Vars: []Var{vr(0, 10)}, Get: []string{"v0"}},
			{Abstract: true, ReqVars: []string{"v0"}, ReqFlavors: []int{0}},
			{Comps: []int{1, 0}}},
			[]Method{{F: 1, Kind: "before", Msg: "m"}, {F: 0, Kind: "primary", Msg: "m"}}},
		// relaying daemons: the outermost whopper or a :before daemon sends the
		// same message to self once more before the combination goes on
		tmpl{"relay/siblings", shapes[0].flavors, []Method{{F: 2, Kind: "whopper", Msg: "m", Relay: true}, {F: 0, Kind: "whopper", Msg: "m"},
			{F: 1, Kind: "before", Msg: "m", Relay: true}, {F: 1, Kind: "primary", Msg: "m"}}},
		tmpl{"relay/chain3", shapes[2].flavors, []Method{{F: 2, Kind: "whopper", Msg: "m", Relay: true}, {F: 1, Kind: "whopper", Msg: "m", Relay: true},
			{F: 0, Kind: "whopper", Msg: "m"}, {F: 1, Kind: "after", Msg: "m"}}},
		tmpl{"relay/befores", shapes[0].flavors, []Method{{F: 0, Kind: "before", Msg: "m", Relay: true}, {F: 1, Kind: "before", Msg: "m", Relay: true},
			{F: 2, Kind: "after", Msg: "m"}, {F: 0, Kind: "primary", Msg: "m"}}},
		tmpl{"relay/setter", []Flavor{
			{Vars: []Var{vr(0, 10)}, Get: []string{"v0"}, Set: []string{"v0"}},
			{Comps: []int{0}}},
			[]Method{{F: 1, Kind: "whopper", Msg: "set-v0", Relay: true}, {F: 0, Kind: "before", Msg: "set-v0", Relay: true}, {F: 0, Kind: "after", Msg: "set-v0"}}},
		tmpl{"relay/stop", shapes[2].flavors, []Method{{F: 2, Kind: "whopper", Msg: "m", Relay: true}, {F: 1, Kind: "whopper", Msg: "m", Stop: true},
			{F: 0, Kind: "before", Msg: "m"}}},
		// whoppers that continue twice: everything they wrap runs twice
		tmpl{"twice/chain3", shapes[2].flavors, []Method{{F: 2, Kind: "whopper", Msg: "m", Twice: true}, {F: 1, Kind: "whopper", Msg: "m"},
			{F: 0, Kind: "whopper", Msg: "m"}, {F: 0, Kind: "before", Msg: "m"}}},
		tmpl{"twice/inner", shapes[2].flavors, []Method{{F: 2, Kind: "whopper", Msg: "m"}, {F: 1, Kind: "whopper", Msg: "m", Twice: true},
			{F: 0, Kind: "whopper", Msg: "m"}, {F: 1, Kind: "primary", Msg: "m"}}},
		tmpl{"twice/siblings", shapes[0].flavors, []Method{{F: 0, Kind: "whopper", Msg: "m", Twice: true}, {F: 1, Kind: "whopper", Msg: "m", Twice: true},
			{F: 1, Kind: "after", Msg: "m"}, {F: 2, Kind: "before", Msg: "m"}}},
		tmpl{"twice/stop", shapes[2].flavors, []Method{{F: 2, Kind: "whopper", Msg: "m", Twice: true}, {F: 1, Kind: "whopper", Msg: "m"},
			{F: 0, Kind: "whopper", Msg: "m", Stop: true}}},
		tmpl{"twice/getter", []Flavor{
			{Vars: []Var{vr(0, 10)}, Get: []string{"v0"}, Set: []string{"v0"}},
			{Comps: []int{0}}, {Comps: []int{1}}},
			[]Method{{F: 2, Kind: "whopper", Msg: "v0", Twice: true}, {F: 1, Kind: "whopper", Msg: "v0"}, {F: 0, Kind: "whopper", Msg: "set-v0", Twice: true},
				{F: 1, Kind: "whopper", Msg: "set-v0"}}},
		tmpl{"relay/error", shapes[0].flavors, []Method{{F: 0, Kind: "before", Msg: "m", Relay: true}, {F: 1, Kind: "before", Msg: "m"},
			{F: 1, Kind: "primary", Msg: "m", Err: true}}},
	)
	return out
}

// pkgTemplates: some of the methods are defined while another package is the
// current one (Step.Pkg = 1 on the steps of the methods listed in foreign).
var pkgTemplates = []struct {
	t       tmpl
	foreign []int
}{
	{tmpl{"pkg/siblings-before", shapes[0].flavors, []Method{{F: 0, Kind: "before", Msg: "m"}, {F: 1, Kind: "before", Msg: "m"}}}, []int{0, 1}},
	{tmpl{"pkg/chain-primary", shapes[2].flavors, []Method{{F: 0, Kind: "primary", Msg: "m"}, {F: 1, Kind: "primary", Msg: "m"}, {F: 2, Kind: "whopper", Msg: "m"}}}, []int{0, 1}},
	{tmpl{"pkg/chain-whopper", shapes[2].flavors, []Method{{F: 0, Kind: "whopper", Msg: "m"}, {F: 1, Kind: "after", Msg: "m"}}}, []int{0}},
	{tmpl{"pkg/init-after", shapes[2].flavors, []Method{{F: 0, Kind: "after", Msg: "init"}, {F: 1, Kind: "before", Msg: "init"}}}, []int{0}},
	{tmpl{"pkg/getter-before", []Flavor{{Vars: []Var{{N: 0, D: 10}}, Get: []string{"v0"}, Set: []string{"v0"}}, {Comps: []int{0}}, {Comps: []int{1}}},
		[]Method{{F: 0, Kind: "before", Msg: "v0"}, {F: 1, Kind: "primary", Msg: "set-v0"}}}, []int{1}},
}

// full5Cases: hierarchies of five flavors in which every flavor has a daemon
// of every kind (or of one kind) for :m, so that sends with five whoppers,
// five :before, five :after daemons and five candidate primaries are
// observed; 12 orders each (4 per bias) from a generator that does not
// depend on VERIF_SEED.
func full5Cases() []Case {
	shapes5 := []struct {
		name string
		fl   []Flavor
	}{
		{"chain5", []Flavor{fl(), fl(0), fl(1), fl(2), fl(3)}},
		{"fan5", []Flavor{fl(), fl(), fl(), fl(0, 1, 2), fl(3)}},
		{"lattice5", []Flavor{fl(), fl(0), fl(0), fl(1, 2), fl(3, 2, 0)}},
		{"rev5", []Flavor{fl(), fl(), fl(1, 0), fl(0, 1), fl(3, 2, 1)}},
	}
	sets := []struct {
		name  string
		kinds []string
		vars  bool
	}{
		{"all", kinds, false}, {"whoppers", []string{"whopper"}, false}, {"daemons", []string{"before", "after"}, false},
		{"primaries", []string{"primary"}, false}, {"defaults", []string{"before"}, true},
	}
	var out []Case
	for si, sh := range shapes5 {
		for mi, set := range sets {
			c := Case{Tmpl: "full5/" + sh.name + "/" + set.name, Rel: true}
			for k, f := range sh.fl {
				f := Flavor{Comps: f.Comps}
				if set.vars {
					f.Vars = []Var{{N: 0, D: 100 * (k + 1)}}
					if k%2 == 0 {
						f.Vars = append(f.Vars, Var{N: 1, ND: true})
					} else {
						f.Vars = append(f.Vars, Var{N: 1, D: 100*(k+1) + 1})
					}
					f.Keys = []Key{{N: 0, D: 10 * (k + 1)}}
					if k == 0 {
						f.Get, f.Set = []string{"v0", "v1"}, []string{"v1"}
					}
					if k == 2 {
						f.Ini = []string{"v0"}
					}
				}
				c.Flavors = append(c.Flavors, f)
			}
			for k := range sh.fl {
				for _, kind := range set.kinds {
					msg := "m"
					if set.vars {
						msg = []string{"v0", "set-v1", "v1", "init", "v0"}[k]
					}
					c.Methods = append(c.Methods, Method{F: k, Kind: kind, Msg: msg})
				}
			}
			for n := 0; n < 12; n++ {
				r := rand.New(rand.NewPCG(0xC11, uint64(si*1000+mi*100+n)))
				cc := c
				cc.Steps = randomOrder(r, &cc, n%3)
				out = append(out, cc)
			}
		}
	}
	return out
}

// variantBases: templates whose first orders are run once more with forms
// that have to fail in between, and once more after a decoy prelude.
var variantBases = map[string]bool{"siblings/1/before": true, "chain/1/primary": true, "diamond/mixed": true, "bare/chain": true,
	"siblings/getter": true, "defaults/chain3": true, "siblings/init2": true, "stop/inner": true}

var badKinds = []string{"unknown-component", "unknown-included", "required-method", "bad-option"}

// addFailing inserts n forms that have to fail into the history: a defmethod
// with an unknown daemon type and a second defflavor after the flavor's
// definition, a spoiled defflavor before it.
func addFailing(r *rand.Rand, c *Case, n int) {
	nf := len(c.Flavors)
	if nf == 0 {
		return
	}
	for ; 0 < n; n-- {
		f := r.IntN(nf)
		at := -1
		for i, s := range c.Steps {
			if (s.Op == "flavor" || s.Op == "flavor-err") && s.F == f {
				at = i
			}
		}
		if at < 0 || c.Steps[at].Op == "flavor-err" {
			continue
		}
		switch r.IntN(3) {
		case 0:
			msg := "q"
			if u := messageUniverse(c); 0 < len(u) && r.IntN(3) != 0 {
				msg = fw_pick(r, u)
			}
			c.Steps = insertStep(c.Steps, at+1+r.IntN(len(c.Steps)-at), Step{Op: "method-err", F: f, Msg: msg})
		case 1:
			c.Steps = insertStep(c.Steps, at+1+r.IntN(len(c.Steps)-at), Step{Op: "flavor-dup", F: f})
		default:
			bad := fw_pick(r, badKinds)
			if c.Flavors[f].Abstract && (bad == "unknown-included" || bad == "required-method") {
				// an abstract flavor is not validated at defflavor time
				bad = "unknown-component"
			}
			c.Steps = insertStep(c.Steps, r.IntN(at+1), Step{Op: "flavor-bad", F: f, Bad: bad})
		}
	}
}

// errTemplates: the defflavor of the last flavor has to be rejected.
func errTemplates() []Case {
	vr := func(n, d int) Var { return Var{N: n, D: d} }
	return []Case{
		{Tmpl: "abstract/required-flavor-missing", Flavors: []Flavor{
			{Vars: []Var{vr(0, 10)}}, {Abstract: true, ReqFlavors: []int{0}}, {Comps: []int{1}}},
			Steps: []Step{{Op: "flavor", F: 0}, {Op: "flavor", F: 1}, {Op: "flavor-err", F: 2}}},
		{Tmpl: "abstract/required-variable-missing", Flavors: []Flavor{
			{Vars: []Var{vr(0, 10)}}, {Abstract: true, ReqVars: []string{"v1"}}, {Comps: []int{1, 0}}},
			Steps: []Step{{Op: "flavor", F: 0}, {Op: "flavor", F: 1}, {Op: "flavor-err", F: 2}}},
	}
}

// extensions enumerates every admissible order of the flavor and method forms
// ("components before users", a method after its flavor), up to limit.
func extensions(t *tmpl, limit int) [][]Step {
	nf, nm := len(t.flavors), len(t.methods)
	doneF := make([]bool, nf)
	doneM := make([]bool, nm)
	var cur []Step
	var out [][]Step
	var rec func()
	rec = func() {
		if limit <= len(out) {
			return
		}
		if len(cur) == nf+nm {
			out = append(out, append([]Step{}, cur...))
			return
		}
		for f := 0; f < nf; f++ {
			if doneF[f] {
				continue
			}
			ok := true
			for _, c := range t.flavors[f].deps() {
				if !doneF[c] {
					ok = false
				}
			}
			if !ok {
				continue
			}
			doneF[f] = true
			cur = append(cur, Step{Op: "flavor", F: f})
			rec()
			cur = cur[:len(cur)-1]
			doneF[f] = false
		}
		for m := 0; m < nm; m++ {
			if doneM[m] || !doneF[t.methods[m].F] {
				continue
			}
			doneM[m] = true
			cur = append(cur, Step{Op: "method", M: m})
			rec()
			cur = cur[:len(cur)-1]
			doneM[m] = false
		}
	}
	rec()
	return out
}

type block struct {
	cases []Case
}

var blocks = map[string]*block{}

func tmplBlock(tier string) *block {
	if b, ok := blocks[tier]; ok {
		return b
	}
	b := &block{}
	limit := 400
	if tier == "thorough" {
		limit = 6000
	}
	var variants []Case
	for _, t := range buildTemplates(tier) {
		t := t
		ext := extensions(&t, limit)
		if strings.HasPrefix(t.name, "holders/") {
			all := extensions(&t, 6000)
			ext = nil
			n := min(holderSpread(tier), len(all))
			for k := 0; k < n; k++ {
				ext = append(ext, all[k*len(all)/n])
			}
		}
		for n, steps := range ext {
			c := Case{Tmpl: t.name, Rel: true, Flavors: t.flavors, Methods: t.methods, Steps: steps}
			b.cases = append(b.cases, c)
			if variantBases[t.name] && n < 24 {
				fc := c
				fc.Tmpl = "failing/" + t.name
				fc.Steps = append([]Step{}, steps...)
				addFailing(rand.New(rand.NewPCG(0xF11, uint64(n))), &fc, 2+n%2)
				dc := c
				dc.Tmpl = "decoy/" + t.name
				dc.Decoy = true
				variants = append(variants, fc, dc)
			}
		}
	}
	b.cases = append(b.cases, variants...)
	for _, pt := range pkgTemplates {
		t := pt.t
		for _, steps := range extensions(&t, limit) {
			steps = append([]Step{}, steps...)
			for i := range steps {
				for _, m := range pt.foreign {
					if steps[i].Op == "method" && steps[i].M == m {
						steps[i].Pkg = 1
					}
				}
			}
			b.cases = append(b.cases, Case{Tmpl: t.name, Rel: true, Flavors: t.flavors, Methods: t.methods, Steps: steps})
		}
	}
	b.cases = append(b.cases, full5Cases()...)
	b.cases = append(b.cases, errTemplates()...)
	blocks[tier] = b
	return b
}

func nCases(tier string) int {
	n := len(tmplBlock(tier).cases)
	if tier == "thorough" {
		return n + 110000
	}
	return n + 8000
}

// ---- seeded cases -------------------------------------------------------

func weighted(r *rand.Rand, w []int) int {
	t := 0
	for _, x := range w {
		t += x
	}
	k := r.IntN(t)
	for i, x := range w {
		if k < x {
			return i
		}
		k -= x
	}
	return len(w) - 1
}

func gen(r *rand.Rand, i int, tier string) Case {
	b := tmplBlock(tier)
	if i < len(b.cases) {
		return b.cases[i]
	}
	var c Case
	c.Rel = i%2 == 0
	nf := 1 + weighted(r, []int{1, 3, 6, 7, 7})
	varDense := r.IntN(4) == 0 // most flavors declare v0 and v1: defaults collide along chains and diamonds
	for k := 0; k < nf; k++ {
		var f Flavor
		if 0 < k && r.IntN(5) != 0 {
			mx := 3
			if k < mx {
				mx = k
			}
			nc := 1 + weighted(r, []int{5, 4, 2}[:mx])
			perm := r.Perm(k)
			f.Comps = append(f.Comps, perm[:nc]...)
		}
		// variables
		for n := 0; n < 3; n++ {
			p := 25
			if varDense {
				p = []int{70, 55, 25}[n]
			}
			if r.IntN(100) < p {
				v := Var{N: n, D: 100*(k+1) + n}
				switch r.IntN(12) {
				case 0, 1: // named without a default: the default is inherited
					v = Var{N: n, ND: true}
				case 2: // an explicit nil default overrides
					v = Var{N: n, Nil: true}
				}
				f.Vars = append(f.Vars, v)
			}
		}
		if r.IntN(10) == 0 {
			f.Vars = append(f.Vars, Var{N: 0, Bare: true})
		}
		for _, v := range f.Vars {
			if r.IntN(2) == 0 {
				f.Get = append(f.Get, v.name())
			}
			if r.IntN(3) == 0 {
				f.Set = append(f.Set, v.name())
			}
		}
		// the bare options: accessors for every variable of the flavor,
		// inherited ones included
		if 0 < len(f.Vars) || 0 < len(f.Comps) {
			if r.IntN(5) == 0 {
				f.GetAll, f.Get = true, nil
			}
			if r.IntN(8) == 0 {
				f.SetAll, f.Set = true, nil
			}
		}
		if r.IntN(4) == 0 {
			if r.IntN(3) == 0 || len(f.Vars) == 0 {
				f.IniAll = true
			} else {
				f.Ini = append(f.Ini, f.Vars[r.IntN(len(f.Vars))].name())
			}
		}
		if r.IntN(4) == 0 {
			n := r.IntN(2)
			f.Keys = append(f.Keys, Key{N: n, D: 10*(k+1) + n})
			if r.IntN(3) == 0 {
				f.Keys = append(f.Keys, Key{N: 2 + r.IntN(2), NoDef: true})
			}
		}
		c.Flavors = append(c.Flavors, f)
	}
	decorate(r, &c)
	// accessor names that exist somewhere in the case
	var getters, setters []string
	for _, msg := range messageUniverse(&c) {
		switch {
		case len(msg) > 4 && msg[:4] == "set-":
			if !has(setters, msg) {
				setters = append(setters, msg)
			}
		case arity(msg) == 0:
			if !has(getters, msg) {
				getters = append(getters, msg)
			}
		}
	}
	nm := 2 + r.IntN(11)
	dense := r.IntN(4) == 0 // every method on :m, two or three per flavor
	if dense {
		nm = 2*nf + r.IntN(nf+1)
	}
	seenM := map[Method]bool{}
	errCase := r.IntN(5) == 0 // minority: some daemons signal an error
	for k := 0; k < nm; k++ {
		m := Method{F: r.IntN(nf), Kind: kinds[weighted(r, []int{3, 3, 3, 2})]}
		stop := m.Kind == "whopper" && r.IntN(5) == 0
		fails := errCase && !stop && r.IntN(4) == 0
		sel := weighted(r, []int{62, 8, 10, 7, 13})
		if dense {
			sel = 0
		}
		switch sel {
		case 0:
			m.Msg = "m"
		case 1:
			m.Msg = "n"
		case 2:
			if 0 < len(getters) {
				m.Msg = fw_pick(r, getters)
			} else {
				m.Msg = "m"
			}
		case 3:
			if 0 < len(setters) {
				m.Msg = fw_pick(r, setters)
			} else {
				m.Msg = "m"
			}
		default:
			m.Msg = "init"
		}
		if seenM[m] {
			continue
		}
		seenM[m] = true
		m.Stop = stop
		m.Err = fails && m.Msg != "init" // an error in :init would leave no instance to observe
		// a minority of whoppers and :before daemons send the message once more
		if (m.Kind == "whopper" || m.Kind == "before") && 0 < arity(m.Msg) && m.Msg != "init" && !m.Err && !m.Stop && r.IntN(6) == 0 {
			m.Relay = true
		}
		if m.Kind == "whopper" && !m.Err && !m.Stop && r.IntN(8) == 0 {
			m.Twice = true
		}
		c.Methods = append(c.Methods, m)
	}
	// history: a random admissible order under one of three biases
	c.Steps = randomOrder(r, &c, weighted(r, []int{4, 3, 3})) // 0 uniform, 1 methods early, 2 flavors first
	// redefinition of a method (minority)
	if 0 < len(c.Methods) && r.IntN(6) == 0 {
		m := r.IntN(len(c.Methods))
		at := 0
		for i, s := range c.Steps {
			if s.Op == "method" && s.M == m {
				at = i
			}
		}
		pos := at + 1 + r.IntN(len(c.Steps)-at)
		c.Steps = insertStep(c.Steps, pos, Step{Op: "method", M: m})
	}
	// instances made in the middle of the history, and sends to them
	if r.IntN(2) == 0 {
		msgs := messageUniverse(&c)
		for n := 1 + r.IntN(2); 0 < n; n-- {
			f := r.IntN(nf)
			made := c.Flavors[f].Abstract
			for _, s := range c.Steps {
				if s.Op == "inst" && s.F == f {
					made = true
				}
			}
			if made {
				continue
			}
			at := 0
			for i, s := range c.Steps {
				if s.Op == "flavor" && s.F == f {
					at = i
				}
			}
			pos := at + 1 + r.IntN(len(c.Steps)-at)
			c.Steps = insertStep(c.Steps, pos, Step{Op: "inst", F: f})
			for k := r.IntN(3); 0 < k && 0 < len(msgs); k-- {
				p2 := pos + 1 + r.IntN(len(c.Steps)-pos)
				c.Steps = insertStep(c.Steps, p2, Step{Op: "send", F: f, Msg: fw_pick(r, msgs)})
			}
		}
	}
	// minorities: forms that have to fail in between; the names defined, used
	// and removed once before; methods defined from another package
	if r.IntN(6) == 0 {
		addFailing(r, &c, 1+r.IntN(3))
	}
	if r.IntN(8) == 0 {
		c.Decoy = true
	}
	if r.IntN(12) == 0 {
		for i := range c.Steps {
			if c.Steps[i].Op == "method" && r.IntN(2) == 0 {
				c.Steps[i].Pkg = 1
			}
		}
	}
	return c
}

// randomOrder gives a random admissible order of the flavor and method forms
// of c: mode 0 uniform, 1 methods as early as possible, 2 flavors first.
func randomOrder(r *rand.Rand, c *Case, mode int) []Step {
	nf := len(c.Flavors)
	var steps []Step
	doneF := make([]bool, nf)
	doneM := make([]bool, len(c.Methods))
	total := nf + len(c.Methods)
	for len(steps) < total {
		var availF, availM []int
		for f := 0; f < nf; f++ {
			if doneF[f] {
				continue
			}
			ok := true
			for _, cp := range c.Flavors[f].deps() {
				if !doneF[cp] {
					ok = false
				}
			}
			if ok {
				availF = append(availF, f)
			}
		}
		for m := range c.Methods {
			if !doneM[m] && doneF[c.Methods[m].F] {
				availM = append(availM, m)
			}
		}
		pickF := false
		switch {
		case len(availM) == 0:
			pickF = true
		case len(availF) == 0:
			pickF = false
		case mode == 1:
			pickF = r.IntN(8) == 0
		case mode == 2:
			pickF = r.IntN(8) != 0
		default:
			pickF = r.IntN(len(availF)+len(availM)) < len(availF)
		}
		if pickF {
			f := fw_pick(r, availF)
			doneF[f] = true
			steps = append(steps, Step{Op: "flavor", F: f})
		} else {
			m := fw_pick(r, availM)
			doneM[m] = true
			steps = append(steps, Step{Op: "method", M: m})
		}
	}
	return steps
}

// decorate adds, in a minority of cases, an :included-flavors option, an
// abstract flavor and requirements of an abstract flavor that are met.
func decorate(r *rand.Rand, c *Case) {
	nf := len(c.Flavors)
	used := make([]bool, nf)
	for _, f := range c.Flavors {
		for _, cp := range f.Comps {
			used[cp] = true
		}
	}
	if r.IntN(3) == 0 {
		// G: no components, nobody's component; X: defined later, not G's user anyway
		var gs []int
		for g, f := range c.Flavors {
			if len(f.Comps) == 0 && !used[g] && g < nf-1 {
				gs = append(gs, g)
			}
		}
		if 0 < len(gs) {
			g := fw_pick(r, gs)
			x := g + 1 + r.IntN(nf-1-g)
			fx := &c.Flavors[x]
			// the includer has no components of its own (where the included
			// flavor goes relative to them is not specified) and no bare
			// options (they are processed before the inclusion)
			if len(fx.Comps) == 0 && !fx.GetAll && !fx.SetAll && !fx.IniAll {
				fx.Incl = []int{g}
				used[g] = true
			}
		}
	}
	if r.IntN(6) == 0 {
		// an abstract flavor: one that is a component of some other flavor and includes nothing
		var xs []int
		for x, f := range c.Flavors {
			if used[x] && len(f.Incl) == 0 {
				isIncluded := false
				for _, o := range c.Flavors {
					for _, g := range o.Incl {
						if g == x {
							isIncluded = true
						}
					}
				}
				if !isIncluded {
					xs = append(xs, x)
				}
			}
		}
		if 0 < len(xs) {
			x := fw_pick(r, xs)
			c.Flavors[x].Abstract = true
			w := newWorld(c)
			// requirements every concrete user meets
			var users []int
			for t := range c.Flavors {
				if t == x || c.Flavors[t].Abstract {
					continue
				}
				for _, f := range w.prec(t) {
					if f == x {
						users = append(users, t)
					}
				}
			}
			for _, v := range []string{"v0", "v1", "v2"} {
				ok := 0 < len(users)
				for _, t := range users {
					ok = ok && w.hasVar(t, v)
				}
				if ok && r.IntN(2) == 0 {
					c.Flavors[x].ReqVars = append(c.Flavors[x].ReqVars, v)
				}
			}
			for rf := range c.Flavors {
				if rf == x {
					continue
				}
				ok := 0 < len(users)
				for _, t := range users {
					in := false
					for _, f := range w.prec(t)[1:] {
						in = in || f == rf
					}
					ok = ok && in
				}
				if ok && r.IntN(2) == 0 {
					c.Flavors[x].ReqFlavors = append(c.Flavors[x].ReqFlavors, rf)
				}
			}
		}
	}
}

func insertStep(steps []Step, pos int, s Step) []Step {
	out := make([]Step, 0, len(steps)+1)
	out = append(out, steps[:pos]...)
	out = append(out, s)
	out = append(out, steps[pos:]...)
	return out
}

func fw_pick[T any](r *rand.Rand, xs []T) T { return xs[r.IntN(len(xs))] }

// messageUniverse lists the messages worth sending in a case, in sweep
// order: user messages, getters, setters, the getters again, :init.
func messageUniverse(c *Case) []string {
	user := map[string]bool{}
	get := map[string]bool{}
	set := map[string]bool{}
	init := false
	classify := func(msg string) {
		switch {
		case msg == "init":
			init = true
		case len(msg) > 4 && msg[:4] == "set-":
			set[msg] = true
		case arity(msg) == 0:
			get[msg] = true
		default:
			user[msg] = true
		}
	}
	for _, m := range c.Methods {
		classify(m.Msg)
	}
	for _, st := range c.Steps {
		// a message only a failed defmethod names: it has to stay unhandled
		if st.Op == "method-err" && st.Msg == "q" {
			classify("q")
		}
	}
	anyGet, anySet := false, false
	for _, f := range c.Flavors {
		anyGet = anyGet || f.GetAll
		anySet = anySet || f.SetAll
	}
	for _, f := range c.Flavors {
		for _, v := range f.Vars {
			if anyGet || has(f.Get, v.name()) {
				get[v.name()] = true
			}
			if anySet || has(f.Set, v.name()) {
				set["set-"+v.name()] = true
			}
		}
	}
	keys := func(m map[string]bool) []string {
		var ks []string
		for k := range m {
			ks = append(ks, k)
		}
		sort.Strings(ks)
		return ks
	}
	var out []string
	out = append(out, keys(user)...)
	g := keys(get)
	out = append(out, g...)
	s := keys(set)
	out = append(out, s...)
	if 0 < len(s) {
		out = append(out, g...)
	}
	if init {
		out = append(out, "init")
	}
	return out
}

var _ = strconv.Itoa
