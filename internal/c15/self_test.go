package c15

import (
	"math/big"
	"math/rand/v2"
	"regexp"
	"testing"

	"verif/internal/c15/ref"
)

type fakePrinter struct{}

func (fakePrinter) Princ(v ref.Val) string { return showVal(v) }
func (fakePrinter) Prin1(v ref.Val) string { return showVal(v) }

func render(t *testing.T, ctl string, args ...ref.Val) string {
	s, _, err := ref.Render(ctl, args, fakePrinter{}, ref.Opts{})
	if err != nil {
		t.Fatalf("%q: %v", ctl, err)
	}
	return s
}

// The renderer and the inverse parsers were written separately; they must agree.
func TestRomanEnglishRoundTrip(t *testing.T) {
	for n := int64(1); n <= 3999; n++ {
		for _, old := range []bool{false, true} {
			ctl := "~@r"
			if old {
				ctl = "~:@r"
			}
			s := render(t, ctl, iv(n))
			got, err := parseRoman(s, old)
			if err != nil || int64(got) != n {
				t.Fatalf("%d -> %q -> %d %v", n, s, got, err)
			}
		}
	}
	r := rand.New(rand.NewPCG(1, 2))
	check := func(n *big.Int) {
		for _, ord := range []bool{false, true} {
			ctl := "~r"
			if ord {
				ctl = "~:r"
			}
			s := render(t, ctl, bv(n))
			got, o, err := parseEnglish(s)
			if err != nil || got.Cmp(n) != 0 || o != ord {
				t.Fatalf("%s -> %q -> %v %v %v", n, s, got, o, err)
			}
		}
	}
	for n := int64(-2000); n <= 120000; n++ {
		check(big.NewInt(n))
	}
	ensureTables()
	for _, n := range englishBig {
		check(n)
	}
	for i := 0; i < 20000; i++ {
		check(randBits(r, 1+r.IntN(218)))
	}
}

func TestExamples(t *testing.T) {
	for _, c := range []struct {
		want, ctl string
		args      []ref.Val
	}{
		{"one thousand two hundred thirty-four", "~r", []ref.Val{iv(1234)}},
		{"one thousand two hundred thirty-fourth", "~:r", []ref.Val{iv(1234)}},
		{"MCCXXXIV", "~@r", []ref.Val{iv(1234)}},
		{"MCCXXXIIII", "~:@r", []ref.Val{iv(1234)}},
		{"1, 2, 3", "~{~a~^, ~}", []ref.Val{lv(iv(1), iv(2), iv(3))}},
		{"1,234,567", "~:d", []ref.Val{iv(1234567)}},
		{"+1,000", "~:@d", []ref.Val{iv(1000)}},
		{"123.4567", "~,,'.,4:d", []ref.Val{iv(1234567)}},
		{"    3", "~vd", []ref.Val{iv(5), iv(3)}},
		{"abc   def", "abc~2,4tdef", nil},
		{"abc      def", "abc~,8tdef", nil},
		{"1x3", "~?~a", []ref.Val{sv("~ax"), lv(iv(1), iv(2)), iv(3)}},
		{"1x2", "~@?~a", []ref.Val{sv("~ax"), iv(1), iv(2)}},
		{"1 item 2 families", "~d item~:p ~d famil~:@p", []ref.Val{iv(1), iv(2)}},
		{"two", "~#[none~;one~;two~:;many~]", []ref.Val{iv(1), iv(2)}},
		{"<1,2><3,4>", "~:{<~a,~a>~}", []ref.Val{lv(lv(iv(1), iv(2)), lv(iv(3), iv(4)))}},
		{"<1,2><3,4>", "~:@{<~a,~a>~}", []ref.Val{lv(iv(1), iv(2)), lv(iv(3), iv(4))}},
		{"Hello World", "~:(hello WORLD~)", nil},
		{"Hello world", "~@(hello WORLD~)", nil},
		{"x=34", "~@[x=~a~]~a", []ref.Val{iv(3), iv(4)}},
		{"4", "~@[x=~a~]~a", []ref.Val{nilv(), iv(4)}},
		{"3.....|", "~5,2,1,'.a|", []ref.Val{iv(3)}},
		{"ff 377 11111111 z", "~x ~o ~b ~36r", []ref.Val{iv(255), iv(255), iv(255), iv(35)}},
		{"a\nx", "a~&x", nil},
		{"a\nx", "a~%~&x", nil},
		{"a\n\nx", "a~2&x", nil},
		{"1-234-5", "~:{~a~^-~a~}", []ref.Val{lv(lv(iv(1), iv(2)), lv(iv(3)), lv(iv(4), iv(5)))}},
	} {
		if got := render(t, c.ctl, c.args...); got != c.want {
			t.Errorf("%q %v: got %q want %q", c.ctl, c.args, got, c.want)
		}
	}
}

// # is the number of arguments left at the point where it is reached: the v
// parameters written before it in the same directive have taken theirs.
func TestHashAfterV(t *testing.T) {
	for _, c := range []struct {
		ctl  string
		args []ref.Val
		want string
	}{
		{"~v,,,#:D", []ref.Val{iv(12), iv(1234567)}, "1,2,3,4,5,6,7"},
		{"~v,#A|", []ref.Val{iv(2), iv(7), yv("y"), yv("z")}, "7   |"},
		{"~@{~v,,,#:X ~}", []ref.Val{iv(0), iv(65535), iv(0), iv(255)}, "f,fff f,f "},
		{"~v,v,#@A|", []ref.Val{iv(1), iv(1), sv("q")}, " \"q\"|"},
		{"~#,v,#d|", []ref.Val{cv('.'), iv(5)}, ".5|"}, // mincol 2, then padchar, then a comma character that is an integer: not reached
	} {
		s, _, err := ref.Render(c.ctl, c.args, fakePrinter{}, ref.Opts{})
		if c.ctl == "~#,v,#d|" {
			if err == nil {
				t.Fatalf("%q: a # in a character slot must not be rendered, got %q", c.ctl, s)
			}
			continue
		}
		if err != nil || s != c.want {
			t.Fatalf("%q: got %q %v, want %q", c.ctl, s, err, c.want)
		}
	}
}

// the parameter-mixture block holds every kind of every slot, and v before #.
func TestMixBlock(t *testing.T) {
	if len(mixProbes) < 15000 {
		t.Fatalf("mix block has %d cases", len(mixProbes))
	}
	seen := map[string]bool{}
	for _, p := range append(append([]mixProbe{}, mixProbes...), mixProbesThorough...) {
		seen[p.ctl+"\x00"+showArgs(p.args)] = true
	}
	for _, want := range []string{`^<~v,#:?@?[as]>\|`, `^<~v,,,#:@?[dbox]>\|`, `^<~v,v,#:?@?[as]>\|`, `^~\{<~v,v,v,#:@?[dbox]>`, `^~\[k~;<~#,v,#,v:?@?[as]>`} {
		re := regexp.MustCompile(want)
		found := false
		for k := range seen {
			if re.MatchString(k) {
				found = true
				break
			}
		}
		if !found {
			t.Errorf("no case matching %s", want)
		}
	}
}
