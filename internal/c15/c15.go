// Package c15 monitors format: every generated control string is rendered by
// the real interpreter to three destinations (nil, a string stream, t with
// *standard-output* rebound) and compared with an independent renderer.
package c15

import (
	"fmt"
	"math/big"
	"math/rand/v2"
	"sort"
	"strings"
	"sync"

	"github.com/ohler55/slip"

	"verif/internal/c15/ref"
	"verif/internal/fw"
	"verif/internal/sl"
)

// Case is one call of format.
type Case struct {
	Blk   string    `json:"blk"`
	Ctl   string    `json:"ctl"`
	Args  []ref.Val `json:"args"`
	Dirty string    `json:"dirty,omitempty"`
	Tag   string    `json:"tag,omitempty"`  // param-mix: family/context/arguments left
	Bind  string    `json:"bind,omitempty"` // printer variables bound around the call, as let bindings
}

// curBind is the Bind of the case being judged: the real format and the princ /
// prin1 calls the oracle ties ~A / ~S to run inside the same bindings.
var curBind string

func baseBound() bool {
	return strings.Contains(curBind, "*print-base*") || strings.Contains(curBind, "*print-radix*")
}

func withBind(src string) string {
	if curBind == "" {
		return src
	}
	return "(let (" + curBind + ") " + src + ")"
}

func toObj(v ref.Val) slip.Object {
	switch v.K {
	case "i":
		n, _ := new(big.Int).SetString(v.S, 10)
		if n == nil {
			panic("bad integer " + v.S)
		}
		if v.Oct && n.IsInt64() && 0 <= n.Int64() && n.Int64() <= 255 {
			return slip.Octet(n.Int64())
		}
		if n.IsInt64() {
			return slip.Fixnum(n.Int64())
		}
		return (*slip.Bignum)(n)
	case "s":
		return slip.String(v.S)
	case "c":
		return slip.Character([]rune(v.S)[0])
	case "y":
		return slip.Symbol(v.S)
	case "l":
		if len(v.L) == 0 {
			return nil
		}
		l := make(slip.List, len(v.L))
		for i, e := range v.L {
			l[i] = toObj(e)
		}
		return l
	case "o":
		obj, err := objFor(v.S)
		if err != nil {
			return slip.String("<unreadable object source>")
		}
		return obj
	}
	panic("bad value kind " + v.K)
}

// objects of kind "o" are given as slip source text (vectors, arrays, floats,
// dotted lists, quote forms ...). The oracle treats them as opaque: only ~A
// and ~S may meet them, and those are tied to princ / prin1.
type objEntry struct {
	obj slip.Object
	err *sl.Err
}

var objCache = map[string]objEntry{}

func objFor(src string) (slip.Object, *sl.Err) {
	if e, ok := objCache[src]; ok {
		return e.obj, e.err
	}
	obj, err := sl.Eval(slip.NewScope(), src)
	objCache[src] = objEntry{obj, err}
	return obj, err
}

func badObject(args []ref.Val) bool {
	for _, a := range args {
		if a.K == "o" {
			if _, err := objFor(a.S); err != nil {
				return true
			}
		}
		if badObject(a.L) {
			return true
		}
	}
	return false
}

func valKey(v ref.Val) string {
	var b strings.Builder
	var w func(v ref.Val)
	w = func(v ref.Val) {
		b.WriteString(v.K)
		if v.Oct {
			b.WriteByte('8')
		}
		b.WriteByte(0)
		b.WriteString(v.S)
		b.WriteByte(1)
		for _, e := range v.L {
			w(e)
		}
		b.WriteByte(2)
	}
	w(v)
	return b.String()
}

// printer ties ~A / ~S to princ-to-string / prin1-to-string of the same
// object as computed by the real interpreter.
type printer struct {
	cache  map[string]string
	ecache map[string]*sl.Err
	err    *sl.Err
}

func (p *printer) call(fn string, v ref.Val) string {
	key := fn + curBind + "\x03" + valKey(v)
	if s, ok := p.cache[key]; ok {
		if e := p.ecache[key]; e != nil && p.err == nil {
			p.err = e
		}
		return s
	}
	scope := slip.NewScope()
	scope.Let(slip.Symbol("c15-x"), toObj(v))
	res, err := sl.Eval(scope, withBind("(with-output-to-string (c15-s) ("+fn+" c15-x c15-s))"))
	out := ""
	var perr *sl.Err
	if err != nil {
		perr = err
	} else if s, ok := res.(slip.String); ok {
		out = string(s)
	} else {
		perr = &sl.Err{Class: "not-a-string", Msg: fn + " returned " + sl.Show(res)}
	}
	if perr != nil {
		p.ecache[key] = perr
		if p.err == nil {
			p.err = perr
		}
	}
	p.cache[key] = out
	return out
}

func (p *printer) Princ(v ref.Val) string { return p.call("princ", v) }
func (p *printer) Prin1(v ref.Val) string { return p.call("prin1", v) }

// toString calls princ-to-string / prin1-to-string.
func toString(fn string, v ref.Val) (string, *sl.Err) {
	scope := slip.NewScope()
	scope.Let(slip.Symbol("c15-x"), toObj(v))
	res, err := sl.Eval(scope, withBind("("+fn+" c15-x)"))
	if err != nil {
		return "", err
	}
	s, ok := res.(slip.String)
	if !ok {
		return "", &sl.Err{Class: "not-a-string", Msg: fn + " returned " + sl.Show(res)}
	}
	return string(s), nil
}

// checkToString: princ-to-string / prin1-to-string give the text princ /
// prin1 write (the property names them as the observation point for ~A/~S).
func checkToString(x *fw.Ctx, v ref.Val) {
	for _, fn := range []string{"princ", "prin1"} {
		thePrinter.err = nil
		want := thePrinter.call(fn, v)
		if thePrinter.err != nil {
			continue
		}
		got, err := toString(fn+"-to-string", v)
		kind := map[string]string{"i": "integer", "s": "string", "c": "character", "y": "symbol", "l": "list", "o": "object"}[v.K]
		switch {
		case err != nil:
			x.Fail("fail="+fn+"-to-string-error kind="+kind, "(%s-to-string %s) => %s", fn, showVal(v), err)
		case got != want:
			x.Fail("fail="+fn+"-to-string-differs-from-"+fn+" kind="+kind, "(%s-to-string %s) => %q but (%s %s stream) writes %q", fn, showVal(v), got, fn, showVal(v), want)
		default:
			x.Cover("agree:" + fn + "-to-string")
		}
	}
}

var thePrinter = &printer{cache: map[string]string{}, ecache: map[string]*sl.Err{}}

// outcome of running the real format.
type outcome struct {
	text string
	err  *sl.Err
	ret  string // rendering of the returned value for stream destinations
}

const (
	destNil = iota
	destStream
	destT
)

func runSlip(ctl string, args []ref.Val, dest int) outcome {
	scope := slip.NewScope()
	scope.Let(slip.Symbol("c15-ctl"), slip.String(ctl))
	var call strings.Builder
	switch dest {
	case destNil:
		call.WriteString("(format nil c15-ctl")
	case destStream:
		call.WriteString("(format c15-s c15-ctl")
	default:
		call.WriteString("(format t c15-ctl")
	}
	for i, a := range args {
		name := fmt.Sprintf("c15-a%d", i)
		scope.Let(slip.Symbol(name), toObj(a))
		call.WriteString(" " + name)
	}
	call.WriteString(")")
	var src string
	switch dest {
	case destNil:
		src = withBind(call.String())
	case destStream:
		src = "(let ((c15-s (make-string-output-stream))) (list " + withBind(call.String()) + " (get-output-stream-string c15-s)))"
	default:
		src = "(let ((c15-s (make-string-output-stream))) (list (let ((*standard-output* c15-s)) " + withBind(call.String()) + ") (get-output-stream-string c15-s)))"
	}
	res, err := sl.Eval(scope, src)
	if err != nil {
		return outcome{err: err}
	}
	if dest == destNil {
		s, ok := res.(slip.String)
		if !ok {
			return outcome{err: &sl.Err{Class: "not-a-string", Msg: "format nil returned " + sl.Show(res)}}
		}
		return outcome{text: string(s)}
	}
	l, ok := res.(slip.List)
	if !ok || len(l) != 2 {
		return outcome{err: &sl.Err{Class: "shape", Msg: sl.Show(res)}}
	}
	s, ok := l[1].(slip.String)
	if !ok {
		return outcome{err: &sl.Err{Class: "not-a-string", Msg: "stream holds " + sl.Show(l[1])}}
	}
	return outcome{text: string(s), ret: sl.Show(l[0])}
}

// verdict of the oracle on one (ctl, args).
type verdict struct {
	kind    string // "" pass, "unjudged", "text", "error", "internal"
	reason  string // for unjudged: the oracle's error kind
	want    []string
	got     outcome
	used    ref.Used
	wantErr *ref.Error
}

// variants renders under every combination of the documented latitudes.
func variants(ctl string, args []ref.Val) []string {
	var outs []string
	seen := map[string]bool{}
	for m := 0; m < 16; m++ {
		o := ref.Opts{FreshAtStart: m&1 != 0, TabStopStay: m&2 != 0, SpaceHyphen: m&4 != 0, Negative: m&8 != 0, BaseBound: baseBound()}
		t, _, err := ref.Render(ctl, args, thePrinter, o)
		if err != nil || seen[t] {
			continue
		}
		seen[t] = true
		outs = append(outs, t)
	}
	return outs
}

// judgeTrace, when set, observes the oracle's own run (monitor counters).
var judgeTrace func(d *ref.Dir, role string, i int, v ref.Val)

func judge(ctl string, args []ref.Val) verdict {
	thePrinter.err = nil
	if badObject(args) {
		return verdict{kind: "unjudged", reason: "object-source-error"}
	}
	want, used, err := ref.Render(ctl, args, thePrinter, ref.Opts{Trace: judgeTrace, BaseBound: baseBound()})
	if err != nil {
		re, _ := err.(*ref.Error)
		return verdict{kind: "unjudged", reason: re.Kind, wantErr: re}
	}
	if thePrinter.err != nil {
		return verdict{kind: "unjudged", reason: "printer-error"}
	}
	v := verdict{used: used, want: []string{want}}
	if used.Fresh || used.TabStop || used.Hyphen || used.Neg {
		v.want = variants(ctl, args)
	}
	v.got = runSlip(ctl, args, destNil)
	switch {
	case v.got.err != nil && v.got.err.Internal:
		v.kind = "internal"
	case v.got.err != nil:
		v.kind = "error"
	default:
		ok := false
		for _, w := range v.want {
			if w == v.got.text {
				ok = true
			}
		}
		if !ok {
			v.kind = "text"
		}
	}
	return v
}

func (v verdict) describe() string {
	if v.got.err != nil {
		return v.got.err.String()
	}
	return fmt.Sprintf("%q", v.got.text)
}

func showArgs(args []ref.Val) string {
	var b strings.Builder
	for i, a := range args {
		if 0 < i {
			b.WriteByte(' ')
		}
		b.WriteString(showVal(a))
	}
	return b.String()
}

func showVal(v ref.Val) string {
	switch v.K {
	case "i":
		if v.Oct {
			return "(coerce " + v.S + " 'octet)"
		}
		return v.S
	case "s":
		return fmt.Sprintf("%q", v.S)
	case "c":
		return "#\\" + v.S
	case "y":
		return "'" + v.S
	case "o":
		return v.S
	}
	if len(v.L) == 0 {
		return "nil"
	}
	var b strings.Builder
	b.WriteString("'(")
	for i, e := range v.L {
		if 0 < i {
			b.WriteByte(' ')
		}
		b.WriteString(strings.TrimPrefix(showVal(e), "'"))
	}
	b.WriteByte(')')
	return b.String()
}

func exec(x *fw.Ctx, c Case) {
	ensureTables()
	curBind = c.Bind
	defer func() { curBind = "" }()
	if c.Bind != "" {
		x.Cover("bind:" + c.Bind)
	}
	x.Cover("block:" + c.Blk)
	if c.Dirty != "" {
		x.Cover("dirty-stream:" + c.Dirty)
	} else {
		x.Cover("clean-stream")
	}
	dirs, perr := ref.Parse(c.Ctl)
	if perr != nil {
		x.Trivial()
		x.Cover("unjudged:generator-syntax")
		return
	}
	coverDirs(x, dirs, 0)
	coverArgs(x, c.Args)
	if c.Tag != "" {
		if f := strings.Split(c.Tag, "/"); len(f) == 3 {
			x.Cover("mix-family:" + f[0])
			x.Cover("mix-context:" + f[1])
			x.Cover("mix-args-left:" + f[2])
		}
	}
	// what the oracle resolved the # and v parameters to while it rendered
	judgeTrace = func(d *ref.Dir, role string, i int, val ref.Val) {
		switch role {
		case "param":
			if i < len(d.Params) && d.Params[i].Kind == '#' {
				n, _ := val.Int()
				k := 9
				if n != nil && n.IsInt64() && n.Int64() < 9 {
					k = int(n.Int64())
				}
				x.Cover(fmt.Sprintf("hash-value:%d", k))
				x.Cover(fmt.Sprintf("hash-in-slot:%d", i))
				for j := 0; j < i; j++ {
					if d.Params[j].Kind == 'v' {
						x.Cover("hash-after-v-resolved")
						break
					}
				}
			}
			if i < len(d.Params) && d.Params[i].Kind == 'v' && val.K != "" {
				x.Cover("v-value:" + map[string]string{"i": "integer", "c": "character"}[val.K])
			}
		case "v-nil":
			x.Cover("v-value:nil")
		}
	}
	v := judge(c.Ctl, c.Args)
	judgeTrace = nil
	obs := map[string]any{"ctl": c.Ctl, "args": showArgs(c.Args)}
	if c.Bind != "" {
		obs["bind"] = c.Bind
	}
	x.Observe(obs)
	if v.kind == "unjudged" {
		x.Trivial()
		x.Cover("unjudged:" + v.reason)
		if c.Blk != "random" {
			x.Cover("unjudged-in:" + c.Blk + ":" + v.reason)
		}
		if v.wantErr != nil {
			obs["oracle"] = v.wantErr.Error()
		}
		return
	}
	obs["expected"] = v.want[0]
	obs["format-nil"] = v.describe()
	if v.kind != "" {
		under := ""
		if c.Bind != "" {
			// do the bindings matter? if the case fails the same way without them
			// it is named without them
			curBind = ""
			if judge(c.Ctl, c.Args).kind == v.kind {
				x.Cover("bind-irrelevant-to-failure")
			} else {
				curBind = c.Bind
				under = " under=" + bindVars(c.Bind)
			}
		}
		mc, ma := minimise(c.Ctl, c.Args, v.kind)
		mv := judge(mc, ma)
		sig := signature(mc, ma, mv) + under
		if c.Blk == "random" && c.Dirty == "" {
			// the clean stream avoids every known-broken construct, so nothing
			// that fails there may be booked on one
			sig = "clean-stream " + sig
		}
		x.Fail(sig, "(format nil %q %s)%s => %s, the directive definitions give %q [smallest form of: (format nil %q %s) => %s, expected %q]",
			mc, showArgs(ma), bindNote(curBind), mv.describe(), first(mv.want), c.Ctl, showArgs(c.Args), v.describe(), v.want[0])
		return
	}
	x.Cover("agree:nil")
	if c.Blk == "probe" || x.Index%16 == 0 {
		for _, a := range c.Args {
			checkToString(x, a)
		}
	}
	if v.used.Fresh || v.used.TabStop || v.used.Hyphen || v.used.Neg {
		x.Cover("judged-up-to-documented-latitude")
	}
	// the other two destinations give the same text and return nil
	for _, d := range []int{destStream, destT} {
		name := map[int]string{destStream: "stream", destT: "t"}[d]
		o := runSlip(c.Ctl, c.Args, d)
		switch {
		case o.err != nil:
			k := "error"
			if o.err.Internal {
				k = "internal"
			}
			x.Fail("fail=dest-"+k+" dest="+name, "(format %s %q %s) => %s but (format nil ...) => %q", name, c.Ctl, showArgs(c.Args), o.err, v.got.text)
		case o.text != v.got.text:
			x.Fail("fail=dest-text dest="+name, "(format %s %q %s) wrote %q but (format nil ...) => %q", name, c.Ctl, showArgs(c.Args), o.text, v.got.text)
		case o.ret != "nil":
			x.Fail("fail=dest-retval dest="+name, "(format %s %q %s) returned %s, not nil", name, c.Ctl, showArgs(c.Args), o.ret)
		default:
			x.Cover("agree:" + name)
		}
	}
	// the other routes into the directive interpreter, and a history on one stream
	if c.Blk == "probe" || c.Blk == "param-mix" || c.Blk == "bind" || c.Blk == "boundary" || x.Index%8 == 0 {
		checkRoutes(x, c, v.got.text)
		if columnFree(dirs) {
			checkHistory(x, c, v.got.text, x.Index)
		} else {
			x.Cover("history-skipped:column-dependent")
		}
	}
	// inverse parsers for the spelled-out radix forms
	if len(dirs) == 1 && dirs[0].Ch == 'r' && len(dirs[0].Params) == 0 && len(c.Args) == 1 {
		n, _ := c.Args[0].Int()
		d := dirs[0]
		if d.At {
			got, err := parseRoman(v.got.text, d.Colon)
			if err != nil || got != int(n.Int64()) {
				x.Fail("fail=inverse dir=~@r", "(format nil %q %s) => %q which reads back as %d (%v)", c.Ctl, n, v.got.text, got, err)
			} else {
				x.Cover("inverse:roman")
			}
		} else {
			got, ord, err := parseEnglish(v.got.text)
			if err != nil || got.Cmp(n) != 0 || ord != d.Colon {
				x.Fail("fail=inverse dir=~r", "(format nil %q %s) => %q which reads back as %v ordinal=%v (%v)", c.Ctl, n, v.got.text, got, ord, err)
			} else {
				x.Cover("inverse:english")
			}
		}
	}
}

// bindVars names the variables of a let-binding text: "(*print-base* 16)" -> "*print-base*".
func bindVars(b string) string {
	var vs []string
	for _, f := range strings.Fields(b) {
		if strings.HasPrefix(f, "(*") {
			vs = append(vs, f[1:])
		}
	}
	return strings.Join(vs, ",")
}

func bindNote(b string) string {
	if b == "" {
		return ""
	}
	return " with " + b
}

func first(s []string) string {
	if len(s) == 0 {
		return ""
	}
	return s[0]
}

func modStr(d *ref.Dir) string {
	m := ""
	if d.Colon {
		m += ":"
	}
	if d.At {
		m += "@"
	}
	return m
}

func coverDirs(x *fw.Ctx, dirs []*ref.Dir, depth int) {
	for _, d := range dirs {
		if d.Ch == 0 {
			continue
		}
		x.Cover("dir:~" + modStr(d) + string(d.Ch))
		if d.Ch == 'r' && 0 < len(d.Params) {
			x.Cover("dir:~nR")
		}
		if 0 < len(d.Params) {
			coverParamMix(x, d)
		}
		for i, p := range d.Params {
			switch p.Kind {
			case 'v':
				x.Cover("param:v")
				if p.C == 'V' {
					x.Cover("param:V-upper-case")
				}
			case '#':
				x.Cover("param:#")
			case 'c':
				x.Cover("param:quoted-char")
				if strings.ContainsRune(brokenQuoted, p.C) {
					x.Cover("param:quoted-special-char") // one of $%&()*,/:<=>?@[]^{|}~ or a directive letter
				}
			case 'n':
				x.Cover(fmt.Sprintf("param:int@%d", i))
				if p.Plus {
					x.Cover("param:+signed")
				}
			}
		}
		if 0 < len(d.Clauses) {
			x.Cover(fmt.Sprintf("nesting-depth:%d", depth+1))
			if d.CloseColon {
				x.Cover("dir:~:}")
			}
			if d.Default {
				x.Cover("dir:~:;")
			}
			for _, cl := range d.Clauses {
				coverDirs(x, cl, depth+1)
			}
		}
	}
}

// coverParamMix records which kinds of prefix parameter one directive mixes and
// in which order v and # come.
func coverParamMix(x *fw.Ctx, d *ref.Dir) {
	has := map[byte]bool{}
	vSeen, hashSeen := 0, 0
	for _, p := range d.Params {
		k := p.Kind
		if k == 0 {
			k = '_'
		}
		has[k] = true
		switch p.Kind {
		case 'v':
			if 0 < hashSeen {
				x.Cover("params:#-before-v")
			}
			vSeen++
		case '#':
			if 0 < vSeen {
				x.Cover(fmt.Sprintf("params:v-before-# (%d v)", min(vSeen, 3)))
			}
			if 0 < hashSeen {
				x.Cover("params:#-twice")
			}
			hashSeen++
		}
	}
	var ks []string
	for _, k := range []byte("nc_v#") {
		if has[k] {
			ks = append(ks, map[byte]string{'n': "int", 'c': "char", '_': "omitted", 'v': "v", '#': "#"}[k])
		}
	}
	x.Cover("params-mix:" + strings.Join(ks, "+"))
	x.Cover(fmt.Sprintf("params-count:%d", len(d.Params)))
}

var two63 = new(big.Int).Lsh(big.NewInt(1), 63)

func coverArgs(x *fw.Ctx, args []ref.Val) {
	x.Cover(fmt.Sprintf("nargs:%d", min(len(args), 8)))
	var walk func(v ref.Val, depth int)
	walk = func(v ref.Val, depth int) {
		switch v.K {
		case "i":
			n, _ := v.Int()
			switch {
			case v.Oct:
				x.Cover("arg:octet")
			case n.IsInt64() && n.Sign() < 0:
				x.Cover("arg:fixnum-negative")
			case n.IsInt64():
				x.Cover("arg:fixnum")
			case n.Sign() < 0:
				x.Cover("arg:bignum-negative")
			default:
				x.Cover("arg:bignum")
			}
		case "s":
			x.Cover("arg:string")
		case "c":
			x.Cover("arg:character")
		case "y":
			x.Cover("arg:symbol")
		case "o":
			x.Cover("arg:object")
		case "l":
			x.Cover(fmt.Sprintf("arg:list-len%d-depth%d", min(len(v.L), 5), depth))
			for _, e := range v.L {
				walk(e, depth+1)
			}
		}
	}
	for _, a := range args {
		walk(a, 0)
	}
}

// ---------------------------------------------------------------------------
// case list

type probe struct {
	ctl  string
	args []ref.Val
}

var (
	romanBlock   = 2 * 3999
	englishSmall = 10201 // -200..10000
	englishBig   []*big.Int
	intGridVals  []*big.Int
	probes       []probe
)

// The tables are built on first use, not at package initialisation: the full
// binary is also started once per session by checks that work through
// sub-processes (C20, C09, C17) and must start fast.
var tablesOnce sync.Once

func ensureTables() { tablesOnce.Do(buildTables) }

func buildTables() {
	for e := int64(3); e <= 65; e++ {
		p := pow(10, e)
		for _, x := range []*big.Int{p, addi(p, -1), addi(p, 1), new(big.Int).Mul(p, big.NewInt(11)), addi(new(big.Int).Mul(p, big.NewInt(20)), 1),
			addi(new(big.Int).Mul(p, big.NewInt(123)), 456), addi(new(big.Int).Mul(p, big.NewInt(5)), 40)} {
			if x.Cmp(ref.EnglishLimit) < 0 {
				englishBig = append(englishBig, x, new(big.Int).Neg(x))
			}
		}
	}
	// every scale word with non-zero neighbours: 111 repeated
	rep := new(big.Int)
	for i := 0; i < 22; i++ {
		rep.Mul(rep, big.NewInt(1000))
		rep.Add(rep, big.NewInt(int64(111+i)))
		englishBig = append(englishBig, new(big.Int).Set(rep))
	}
	for _, s := range []string{"0", "1", "-1", "7", "-8", "999", "1000", "-1000", "123456", "-1234567", "4294967296",
		"9223372036854775807", "-9223372036854775808", "9223372036854775808", "18446744073709551616",
		"-18446744073709551617", "1000000000000000000000000000000", "-123456789012345678901234567890123456789012345678901234567890"} {
		n, _ := new(big.Int).SetString(s, 10)
		intGridVals = append(intGridVals, n)
	}
	buildProbes()
	buildMix()
	buildExtra()
}

var (
	gridMincol   = []string{"", "0", "1", "7", "12", "30"}
	gridPad      = []string{"", "'0", "'."}
	gridComma    = []string{"", "'.", "' "}
	gridInterval = []string{"", "1", "2", "4"}
	gridMods     = []string{"", ":", "@", ":@"}
	gridDirs     = []string{"d", "b", "o", "x"}
)

func intGridSize(tier string) int {
	nv := len(intGridVals)
	if tier != "thorough" {
		nv = 9
	}
	return len(gridDirs) * len(gridMods) * len(gridMincol) * len(gridPad) * len(gridComma) * len(gridInterval) * nv
}

func joinParams(ps ...string) string {
	for 0 < len(ps) && ps[len(ps)-1] == "" {
		ps = ps[:len(ps)-1]
	}
	return strings.Join(ps, ",")
}

func intGridCase(k int, tier string) Case {
	nv := len(intGridVals)
	if tier != "thorough" {
		nv = 9
	}
	val := intGridVals[(k%nv)*len(intGridVals)/nv]
	k /= nv
	iv := gridInterval[k%len(gridInterval)]
	k /= len(gridInterval)
	cm := gridComma[k%len(gridComma)]
	k /= len(gridComma)
	pd := gridPad[k%len(gridPad)]
	k /= len(gridPad)
	mc := gridMincol[k%len(gridMincol)]
	k /= len(gridMincol)
	md := gridMods[k%len(gridMods)]
	k /= len(gridMods)
	dir := gridDirs[k%len(gridDirs)]
	return Case{Blk: "int-grid", Ctl: "~" + joinParams(mc, pd, cm, iv) + md + dir, Args: []ref.Val{bv(val)}}
}

func randomCount(tier string) int {
	if tier == "thorough" {
		return 900000
	}
	return 60000
}

func englishRandomCount(tier string) int {
	if tier == "thorough" {
		return 100000
	}
	return 8000
}

// englishRandom: a number below 10^66 built group by group; one group in six
// (not the outermost ones) is 000. (Until 7ccbe9e round tens, a lowest group of
// 000 and ordinals ending in hundred were kept to a quarter of the cases.)
func englishRandom(r *rand.Rand) Case {
	ordinal := r.IntN(2) == 0
	free := true
	ngroups := 1 + r.IntN(22)
	x := new(big.Int)
	for g := ngroups - 1; 0 <= g; g-- {
		var grp int
		for {
			grp = r.IntN(1000)
			if r.IntN(6) == 0 && g != 0 && g != ngroups-1 {
				grp = 0
			}
			if free {
				break
			}
			if 20 <= grp%100 && grp%10 == 0 {
				continue
			}
			if g == 0 && (grp == 0 || (ordinal && grp%100 == 0)) {
				continue
			}
			if g == ngroups-1 && grp == 0 {
				continue
			}
			break
		}
		x.Mul(x, big.NewInt(1000))
		x.Add(x, big.NewInt(int64(grp)))
	}
	if r.IntN(6) == 0 {
		x.Neg(x)
	}
	ctl := "~R"
	if ordinal {
		ctl = "~:R"
	}
	return Case{Blk: "english-random", Ctl: ctl, Args: []ref.Val{bv(x)}}
}

func nCases(tier string) int {
	ensureTables()
	return romanBlock + 2*englishSmall + 2*len(englishBig) + intGridSize(tier) + len(probes) + mixCount(tier) + len(extraCases) + englishRandomCount(tier) + randomCount(tier)
}

func gen(r *rand.Rand, i int, tier string) Case {
	ensureTables()
	if i < romanBlock {
		ctl := "~@R"
		if i%2 == 1 {
			ctl = "~:@R"
		}
		return Case{Blk: "roman", Ctl: ctl, Args: []ref.Val{iv(int64(1 + i/2))}}
	}
	i -= romanBlock
	if i < 2*englishSmall {
		ctl := "~R"
		if i%2 == 1 {
			ctl = "~:R"
		}
		return Case{Blk: "english", Ctl: ctl, Args: []ref.Val{iv(int64(i/2 - 200))}}
	}
	i -= 2 * englishSmall
	if i < 2*len(englishBig) {
		ctl := "~R"
		if i%2 == 1 {
			ctl = "~:R"
		}
		return Case{Blk: "english-big", Ctl: ctl, Args: []ref.Val{bv(englishBig[i/2])}}
	}
	i -= 2 * len(englishBig)
	if n := intGridSize(tier); i < n {
		return intGridCase(i, tier)
	}
	i -= intGridSize(tier)
	if i < len(probes) {
		return Case{Blk: "probe", Ctl: probes[i].ctl, Args: probes[i].args}
	}
	i -= len(probes)
	if i < mixCount(tier) {
		return mixCase(i)
	}
	i -= mixCount(tier)
	if i < len(extraCases) {
		return extraCases[i]
	}
	i -= len(extraCases)
	if i < englishRandomCount(tier) {
		return englishRandom(r)
	}
	g := &G{r: r, hit: new(bool)}
	if r.IntN(8) == 0 {
		g.dirty = dirtyFeatures[r.IntN(len(dirtyFeatures))]
	}
	ctl, args := g.topLevel()
	c := Case{Blk: "random", Ctl: ctl, Args: args}
	if *g.hit {
		c.Dirty = g.dirty
	}
	if c.Dirty == "" && r.IntN(12) == 0 {
		c.Bind = bindings[r.IntN(len(bindings))]
	}
	return c
}

func init() {
	fw.Register(fw.Spec[Case]{
		ID: "C15",
		Rule: "one call of format = control string + arguments. Fixed blocks (same for every seed): ~@R and ~:@R for every n in 1..3999; ~R and ~:R for every n in -200..10000 " +
			"and for structured numbers around every power of ten below 10^66, plus seeded numbers below 10^66 built group by group; ~D ~B ~O ~X over the full grid mods x mincol x padchar x commachar x interval x boundary integers; " +
			"a probe list that sweeps each directive's parameters (every printable ASCII pad character, ~T over colnum x colinc x column, ~C over characters, block nestings, ~[ shapes; " +
			"sign x modifier x digit count 1..9 x comma interval for ~D ~B ~O ~X; every outer conditional kind x inner block kind x what follows; ~{ ~:{ ~@{ ~:@{ x limit x nested element shapes; " +
			"~* with every modifier and parameter outside and inside iterations, ~?, ~( and ~[; ~? / ~@? given control strings that contain blocks; ~A/~S of floats, ratios, vectors, arrays, dotted lists, quote forms against princ/prin1). " +
			"A parameter-mixture block: for ~A ~S (4 slots), ~D ~B ~O ~X (4), ~T (2), ~nR (5), ~% ~& ~~ ~* ~[ ~{ (1) every slot independently literal / omitted / v given a value / v given nil / # (integer slots), every mixture and order, " +
			"at top level and inside ~{ ~@{ ~:{ ~:@{ ~[ ~:[ ~@[ ~( ~? ~@? with 0..5 arguments left behind the directive (so # takes 0..9), and pairs of parameterised directives in a row. " +
			"Printer variables (*print-base* -radix* -case* -escape* -length* -level* -array* -readably*, 22 bindings) bound around the call x object kinds x the forms of ~A/~S (tied to princ/prin1 under the same bindings) and the directives that must not move; " +
			"boundary sizes: ~T and padding around the 80-space fill block and 160/240 columns, mincol/minpad/counts at 79..81, 255..257, 1023..1025, 4095..4097, 65535..65537, literal text and string arguments of those lengths, 0..1000 list elements / arguments / clauses, nesting to depth 12, integers to 2^4096; " +
			"octets (slip's third integer representation) as arguments and v parameters of every directive; integer parameters written with a + sign; named characters for ~:C; ~P of 1.0, 3/2 and other non-integers. " +
			"On every case of the probe blocks and 1 in 8 of the rest the same control and arguments also go through (error ...) and (invalid-method-error ...), whose condition message must be the same text, and twice onto one stream with a failing format between the two calls. " +
			"Then seeded compositions of up to 4 pieces, nested to depth 3, drawn from all directives of the property with literal, v and # parameters and every modifier (one directive in three draws every parameter slot independently from literal / omitted / v / nil v / #); 1 case in 12 of the clean stream runs under one of the printer-variable bindings; arguments are " +
			"integers of every magnitude (fixnum/bignum boundary grid, up to 215 bits), strings (incl. ~ and quote characters), characters, symbols, lists of length 0..4 and nested lists, and other objects (floats, ratios, vectors, arrays, dotted lists, quote forms) for ~A/~S. " +
			"1 case in 8 of the seeded part carries exactly one of the 7 constructs still listed as open findings (dirty stream: ~^, ~T colinc / default column / inside blocks, ~& inside blocks, ~:( ~@( word boundaries, non-ASCII widths); the rest avoid them (clean stream); the 21 repaired constructs are generated freely. " +
			"distinct = distinct (control, arguments); non-trivial = the oracle gives a text (legal control string with enough arguments of the right type)",
		N:     nCases,
		Gen:   gen,
		Exec:  exec,
		Batch: 4000,
		Assumptions: []string{
			"~A and ~S are judged relative to princ-to-string / prin1-to-string of the same object (C03 owns the absolute rendering)",
			"digits above 9 are lower case, as slip prints them everywhere",
			"where slip's documentation and CLHS leave room the check accepts both readings: ~& with nothing output yet, ~T exactly on a tab stop, 'twenty one' vs 'twenty-one', 'negative' vs 'minus'",
			"control strings that are errors or undefined in CL (too few arguments, wrong argument type, illegal parameters) are not judged",
		},
	})
}

// sortedKeys is a small helper.
func sortedKeys(m map[string]bool) []string {
	var ks []string
	for k := range m {
		ks = append(ks, k)
	}
	sort.Strings(ks)
	return ks
}
