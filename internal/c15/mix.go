package c15

import (
	"strings"

	"verif/internal/c15/ref"
)

// The parameter-mixture block: for every directive of the property that takes
// prefix parameters, every slot is independently a literal, omitted, a v given
// a value, a v given nil (= omitted) or #, in every mixture and order; each
// mixture is run at top level and inside ~{ ~@{ ~:{ ~:@{ ~[ ~:[ ~@[ ~( ~? ~@?
// with argument lists of several lengths, so that # takes different values and
// the arguments consumed by earlier v parameters matter (CLHS 22.3: # is "the
// number of args remaining to be processed" at the point it is reached).
// The block is the same for every seed.

// slot kinds
const (
	kLit  = 'l'
	kOmit = 'o'
	kV    = 'v'
	kNil  = 'z' // v given nil
	kHash = '#'
)

type mixSlot struct {
	char bool    // a character parameter (no # there: # is an integer)
	lit  string  // the literal text
	val  ref.Val // what a v parameter is given
}

func (s mixSlot) kinds() []byte {
	if s.char {
		return []byte{kLit, kOmit, kV, kNil}
	}
	return []byte{kLit, kOmit, kV, kNil, kHash}
}

// mixPrefix renders the parameter list for one choice of kinds and returns the
// arguments its v parameters consume, in order.
func mixPrefix(slots []mixSlot, kinds []byte) (string, []ref.Val) {
	parts := make([]string, len(slots))
	var pre []ref.Val
	for i, s := range slots {
		switch kinds[i] {
		case kLit:
			parts[i] = s.lit
		case kV:
			parts[i] = "v"
			pre = append(pre, s.val)
		case kNil:
			parts[i] = "v"
			pre = append(pre, nilv())
		case kHash:
			parts[i] = "#"
		}
	}
	return joinParams(parts...), pre
}

// tuples enumerates every choice of kinds for the slots.
func mixTuples(slots []mixSlot) [][]byte {
	out := [][]byte{{}}
	for _, s := range slots {
		var next [][]byte
		for _, t := range out {
			for _, k := range s.kinds() {
				next = append(next, append(append([]byte{}, t...), k))
			}
		}
		out = next
	}
	return out
}

// mixUnit is one directive (or short piece) with the arguments one run of it
// consumes; greedy pieces take every argument that is left in their context.
type mixUnit struct {
	fam    string
	txt    string
	own    []ref.Val
	greedy bool
}

type mixProbe struct {
	probe
	tag string // family/context/tail
}

var mixProbes []mixProbe
var mixProbesThorough []mixProbe

var mixContexts = []string{"top", "iter", "iter-at", "iter-colon", "iter-colon-at", "cond", "cond-colon", "cond-at", "case", "proc", "proc-at"}

// mixTails: the number of arguments left behind the directive in its context
// (they are printed afterwards, so an argument taken or skipped wrongly shows).
func mixTail(n int) []ref.Val {
	out := make([]ref.Val, n)
	for i := range out {
		out[i] = iv(int64(91 + i))
	}
	return out
}

func catVals(vs ...[]ref.Val) []ref.Val {
	var out []ref.Val
	for _, v := range vs {
		out = append(out, v...)
	}
	return out
}

// mixPlace puts the unit into the context. ok is false where the pairing makes
// no sense (a greedy piece in a context that runs the body twice).
func mixPlace(u mixUnit, ctx string, ntail int) (probe, bool) {
	tail := mixTail(ntail)
	rest := "|" + strings.Repeat("[~a]", ntail)
	if u.greedy {
		rest = "|~@{[~a]~}"
	}
	body := "<" + u.txt + ">" + rest
	pass := catVals(u.own, tail)
	end := iv(99)
	switch ctx {
	case "top":
		return probe{ctl: body, args: pass}, true
	case "iter":
		if u.greedy {
			return probe{ctl: "~{" + body + "~}|~a", args: []ref.Val{lv(pass...), end}}, true
		}
		return probe{ctl: "~{" + body + "~}|~a", args: []ref.Val{lv(catVals(pass, pass)...), end}}, true
	case "iter-at":
		if u.greedy {
			return probe{ctl: "~@{" + body + "~}|", args: pass}, true
		}
		return probe{ctl: "~@{" + body + "~}|", args: catVals(pass, pass)}, true
	case "iter-colon":
		return probe{ctl: "~:{" + body + "~}|~a", args: []ref.Val{lv(lv(pass...), lv(pass...)), end}}, true
	case "iter-colon-at":
		return probe{ctl: "~:@{" + body + "~}|", args: []ref.Val{lv(pass...), lv(pass...)}}, true
	case "cond":
		if u.greedy {
			return probe{ctl: "~[k~;" + body + "~;m~]", args: catVals([]ref.Val{iv(1)}, pass)}, true
		}
		return probe{ctl: "~[k~;" + body + "~;m~]|~a", args: catVals([]ref.Val{iv(1)}, pass, []ref.Val{end})}, true
	case "cond-colon":
		if u.greedy {
			return probe{ctl: "~:[k~;" + body + "~]", args: catVals([]ref.Val{iv(3)}, pass)}, true
		}
		return probe{ctl: "~:[k~;" + body + "~]|~a", args: catVals([]ref.Val{iv(3)}, pass, []ref.Val{end})}, true
	case "cond-at":
		if u.greedy {
			return probe{ctl: "~@[~a" + body + "~]", args: catVals([]ref.Val{iv(3)}, pass)}, true
		}
		return probe{ctl: "~@[~a" + body + "~]|~a", args: catVals([]ref.Val{iv(3)}, pass, []ref.Val{end})}, true
	case "case":
		if u.greedy {
			return probe{ctl: "~(" + body + "~)", args: pass}, true
		}
		return probe{ctl: "~(" + body + "~)|~a", args: catVals(pass, []ref.Val{end})}, true
	case "proc":
		return probe{ctl: "~?|~a", args: []ref.Val{sv(body), lv(pass...), end}}, true
	case "proc-at":
		if u.greedy {
			return probe{ctl: "~@?", args: catVals([]ref.Val{sv(body)}, pass)}, true
		}
		return probe{ctl: "~@?|~a", args: catVals([]ref.Val{sv(body)}, pass, []ref.Val{end})}, true
	}
	return probe{}, false
}

func kindsTag(kinds []byte) string { return string(kinds) }

func buildMix() {
	seen := map[string]bool{}
	emit := func(list *[]mixProbe, u mixUnit, ctx string, ntail int) {
		p, ok := mixPlace(u, ctx, ntail)
		if !ok {
			return
		}
		key := p.ctl + "\x00" + showArgs(p.args)
		if seen[key] {
			return
		}
		seen[key] = true
		*list = append(*list, mixProbe{probe: p, tag: u.fam + "/" + ctx + "/" + itoa(ntail)})
	}
	// place: the top level always, and three of the other contexts chosen by
	// rotation in the quick tier; every context in the thorough tier.
	rot := 0
	place := func(u mixUnit, tails []int, ctxs []string) {
		for _, nt := range tails {
			emit(&mixProbes, u, "top", nt)
			others := ctxs[1:]
			chosen := map[string]bool{}
			for j := 0; j < 3 && j < len(others); j++ {
				c := others[(rot+j)%len(others)]
				chosen[c] = true
				emit(&mixProbes, u, c, nt)
			}
			rot++
			for _, c := range others {
				if !chosen[c] {
					emit(&mixProbesThorough, u, c, nt)
				}
			}
		}
	}

	// ~A ~S: mincol, colinc, minpad, padchar
	asSlots := []mixSlot{{lit: "7", val: iv(8)}, {lit: "2", val: iv(3)}, {lit: "1", val: iv(2)}, {char: true, lit: "'.", val: cv('_')}}
	asHeads := []string{"a", "s", ":a", "@a", ":@s", "@s", ":s", ":@a"}
	asArgs := []ref.Val{sv("ab"), yv("foo"), iv(-12), nilv(), sv("x")}
	for i, kinds := range mixTuples(asSlots) {
		ptxt, pre := mixPrefix(asSlots, kinds)
		u := mixUnit{fam: "as", txt: "~" + ptxt + asHeads[i%len(asHeads)], own: append(pre, asArgs[i%len(asArgs)])}
		place(u, []int{0, 1, 3}, mixContexts)
	}
	// every head once more for the tuples that mix v and # (thorough)
	for _, kinds := range mixTuples(asSlots) {
		if !strings.Contains(string(kinds), "#") || !strings.ContainsAny(string(kinds), "vz") {
			continue
		}
		ptxt, pre := mixPrefix(asSlots, kinds)
		for _, h := range asHeads {
			emit(&mixProbesThorough, mixUnit{fam: "as", txt: "~" + ptxt + h, own: append(append([]ref.Val{}, pre...), sv("ab"))}, "top", 2)
		}
	}

	// ~D ~B ~O ~X: mincol, padchar, commachar, comma-interval
	intSlots := []mixSlot{{lit: "30", val: iv(31)}, {char: true, lit: "'0", val: cv('_')}, {char: true, lit: "'.", val: cv('-')}, {lit: "2", val: iv(4)}}
	colonHeads := []string{":d", ":@x", ":o", ":@b", ":x", ":@d", ":b", ":@o"}
	plainHeads := []string{"d", "@x", "o", "@b", "x", "@d", "b", "@o"}
	for i, kinds := range mixTuples(intSlots) {
		ptxt, pre := mixPrefix(intSlots, kinds)
		big := iv(1234567)
		if i%2 == 1 {
			big = iv(-1234567)
		}
		place(mixUnit{fam: "int", txt: "~" + ptxt + colonHeads[i%len(colonHeads)], own: append(append([]ref.Val{}, pre...), big)}, []int{0, 1, 3}, mixContexts)
		place(mixUnit{fam: "int", txt: "~" + ptxt + plainHeads[i%len(plainHeads)], own: append(append([]ref.Val{}, pre...), big)}, []int{0, 1, 3}, mixContexts)
		if kinds[0] == kHash {
			// a mincol taken from # is only visible next to a short number
			small := iv(1)
			if i%2 == 1 {
				small = iv(-1)
			}
			place(mixUnit{fam: "int", txt: "~" + ptxt + colonHeads[(i+1)%len(colonHeads)], own: append(append([]ref.Val{}, pre...), small)}, []int{0, 1, 3}, mixContexts)
		}
	}
	for _, kinds := range mixTuples(intSlots) {
		if !strings.Contains(string(kinds), "#") || !strings.ContainsAny(string(kinds), "vz") {
			continue
		}
		ptxt, pre := mixPrefix(intSlots, kinds)
		for _, h := range append(append([]string{}, colonHeads...), plainHeads...) {
			emit(&mixProbesThorough, mixUnit{fam: "int", txt: "~" + ptxt + h, own: append(append([]ref.Val{}, pre...), iv(1234))}, "top", 2)
		}
	}

	// ~radix R: radix, mincol, padchar, commachar, comma-interval (an omitted
	// radix with other parameters given is not defined, so the radix is always there)
	rSlots := []mixSlot{{lit: "8", val: iv(16)}, {lit: "30", val: iv(31)}, {char: true, lit: "'0", val: cv('_')}, {char: true, lit: "'.", val: cv('-')}, {lit: "2", val: iv(4)}}
	rHeads := []string{":r", ":@r", "r", "@r"}
	for i, kinds := range mixTuples(rSlots) {
		if kinds[0] == kOmit || kinds[0] == kNil {
			continue
		}
		ptxt, pre := mixPrefix(rSlots, kinds)
		n := iv(1234567)
		if i%2 == 1 {
			n = iv(-1234567)
		}
		u := mixUnit{fam: "radix", txt: "~" + ptxt + rHeads[i%len(rHeads)], own: append(pre, n)}
		emit(&mixProbes, u, "top", i%3)
		emit(&mixProbes, u, mixContexts[1+i%(len(mixContexts)-1)], 1+i%2)
		emit(&mixProbesThorough, u, "top", 3)
		emit(&mixProbesThorough, u, mixContexts[1+(i+5)%(len(mixContexts)-1)], 2)
	}

	// ~T: colnum, colinc (colinc other than 1 without @ is an open finding, so
	// the literal and the v value are 1 there)
	for _, at := range []string{"", "@"} {
		tSlots := []mixSlot{{lit: "5", val: iv(6)}, {lit: "1", val: iv(1)}}
		if at == "@" {
			tSlots = []mixSlot{{lit: "2", val: iv(3)}, {lit: "3", val: iv(4)}}
		}
		for _, kinds := range mixTuples(tSlots) {
			ptxt, pre := mixPrefix(tSlots, kinds)
			u := mixUnit{fam: "tab", txt: "ab~" + ptxt + at + "t", own: pre}
			for _, nt := range []int{0, 1, 2, 4} {
				// (inside a block or a ~? control string ~T meets the open finding
				// about its column; a sample only)
				emit(&mixProbes, u, "top", nt)
				emit(&mixProbesThorough, u, "iter", nt)
				emit(&mixProbesThorough, u, "cond", nt)
				emit(&mixProbesThorough, u, "proc-at", nt)
			}
		}
	}

	// ~% ~& ~~: count
	for _, ch := range []string{"%", "&", "~"} {
		slots := []mixSlot{{lit: "2", val: iv(3)}}
		for _, kinds := range mixTuples(slots) {
			ptxt, pre := mixPrefix(slots, kinds)
			u := mixUnit{fam: "newline", txt: "a~" + ptxt + ch, own: pre}
			for _, nt := range []int{0, 1, 2, 3} {
				ctxs := mixContexts
				if ch == "&" {
					ctxs = []string{"top", "iter"} // ~& in a block is an open finding
				}
				for _, c := range ctxs {
					emit(&mixProbes, u, c, nt)
				}
			}
		}
	}

	// ~[ : the selector
	for _, kinds := range mixTuples([]mixSlot{{lit: "1", val: iv(3)}}) {
		slots := []mixSlot{{lit: "1", val: iv(3)}}
		ptxt, pre := mixPrefix(slots, kinds)
		own := pre
		if kinds[0] == kOmit || kinds[0] == kNil {
			own = append(own, iv(2))
		}
		u := mixUnit{fam: "cond", txt: "~" + ptxt + "[c0~;c1~;c2~;c3~:;dflt~]", own: own}
		for _, nt := range []int{0, 1, 2, 3, 4, 5} {
			for _, c := range mixContexts {
				emit(&mixProbes, u, c, nt)
			}
		}
	}

	// ~{ ~:{ : the limit, with the elements in a list of their own
	for _, kinds := range mixTuples([]mixSlot{{lit: "2", val: iv(1)}}) {
		slots := []mixSlot{{lit: "2", val: iv(1)}}
		ptxt, pre := mixPrefix(slots, kinds)
		flat := lv(iv(1), iv(2), iv(3), iv(4))
		subs := lv(lv(iv(1)), lv(iv(2)), lv(iv(3)), lv(iv(4)))
		for _, nt := range []int{0, 1, 2, 4} {
			for _, c := range mixContexts {
				emit(&mixProbes, mixUnit{fam: "iter", txt: "~" + ptxt + "{(~a)~}", own: append(append([]ref.Val{}, pre...), flat)}, c, nt)
				emit(&mixProbes, mixUnit{fam: "iter", txt: "~" + ptxt + ":{(~a)~}", own: append(append([]ref.Val{}, pre...), subs)}, c, nt)
			}
			// ~@{ ~:@{ take what is left in their context
			for _, c := range mixContexts {
				if strings.HasPrefix(c, "iter") {
					continue
				}
				emit(&mixProbes, mixUnit{fam: "iter", txt: "~" + ptxt + "@{(~a)~}", own: pre, greedy: true}, c, nt)
			}
		}
	}

	// ~* : count / position; what is left is printed by a greedy piece
	for _, m := range []string{"", ":", "@"} {
		slots := []mixSlot{{lit: "1", val: iv(2)}}
		for _, kinds := range mixTuples(slots) {
			ptxt, pre := mixPrefix(slots, kinds)
			for _, before := range []int{0, 2} {
				for _, nt := range []int{0, 1, 2, 3} {
					u := mixUnit{fam: "star", txt: strings.Repeat("~a", before) + "~" + ptxt + m + "*", own: catVals(mixTail(before), pre), greedy: true}
					for _, c := range mixContexts {
						if strings.HasPrefix(c, "iter") {
							continue
						}
						emit(&mixProbes, u, c, nt)
					}
				}
			}
		}
	}

	// two parameterised directives in a row: the v parameters of the first move
	// the # of the second
	d1 := []mixSlot{{lit: "4", val: iv(5)}, {lit: "2", val: iv(3)}}
	d2 := []mixSlot{{lit: "6", val: iv(7)}, {char: true, lit: "'0", val: cv('_')}}
	for _, k1 := range mixTuples(d1) {
		for _, k2 := range mixTuples(d2) {
			p1, pre1 := mixPrefix(d1, k1)
			p2, pre2 := mixPrefix(d2, k2)
			u := mixUnit{fam: "pair", txt: "~" + p1 + "a|~" + p2 + "d", own: catVals(pre1, []ref.Val{sv("x")}, pre2, []ref.Val{iv(42)})}
			for _, nt := range []int{0, 2} {
				emit(&mixProbes, u, "top", nt)
				emit(&mixProbes, u, "iter", nt)
			}
		}
	}
}

func mixCount(tier string) int {
	if tier == "thorough" {
		return len(mixProbes) + len(mixProbesThorough)
	}
	return len(mixProbes)
}

func mixCase(i int) Case {
	var p mixProbe
	if i < len(mixProbes) {
		p = mixProbes[i]
	} else {
		p = mixProbesThorough[i-len(mixProbes)]
	}
	return Case{Blk: "param-mix", Ctl: p.ctl, Args: p.args, Tag: p.tag}
}
