package c15

import (
	"fmt"
	"math/big"
	"strings"
)

// Inverse parsers: text -> number. They share nothing with the renderer in
// ref, so a misreading of the definition common to slip and the renderer is
// less likely to go unnoticed.

var romanValue = map[rune]int{'I': 1, 'V': 5, 'X': 10, 'L': 50, 'C': 100, 'D': 500, 'M': 1000}

// parseRoman evaluates a Roman numeral. With old set only the additive style
// is accepted (symbols never increase from left to right).
func parseRoman(s string, old bool) (int, error) {
	if s == "" {
		return 0, fmt.Errorf("empty")
	}
	rs := []rune(s)
	total := 0
	run := 0
	for i, c := range rs {
		v, ok := romanValue[c]
		if !ok {
			return 0, fmt.Errorf("not a Roman digit: %q", c)
		}
		if 0 < i && rs[i-1] == c {
			run++
		} else {
			run = 1
		}
		limit := 3
		if old {
			limit = 4
		}
		if limit < run && c != 'M' || (1 < run && (c == 'V' || c == 'L' || c == 'D')) {
			return 0, fmt.Errorf("%q repeated %d times", c, run)
		}
		if i+1 < len(rs) && v < romanValue[rs[i+1]] {
			if old {
				return 0, fmt.Errorf("subtractive pair in the old style")
			}
			nv := romanValue[rs[i+1]]
			if !(nv == 5*v || nv == 10*v) || (c != 'I' && c != 'X' && c != 'C') {
				return 0, fmt.Errorf("illegal subtractive pair %c%c", c, rs[i+1])
			}
			if i+2 < len(rs) && v <= romanValue[rs[i+2]] {
				return 0, fmt.Errorf("symbol after a subtractive pair too large")
			}
			total -= v
		} else {
			total += v
		}
	}
	return total, nil
}

var unitWords = map[string]int{"one": 1, "two": 2, "three": 3, "four": 4, "five": 5, "six": 6, "seven": 7, "eight": 8, "nine": 9,
	"ten": 10, "eleven": 11, "twelve": 12, "thirteen": 13, "fourteen": 14, "fifteen": 15, "sixteen": 16, "seventeen": 17,
	"eighteen": 18, "nineteen": 19}
var tenWords = map[string]int{"twenty": 20, "thirty": 30, "forty": 40, "fifty": 50, "sixty": 60, "seventy": 70, "eighty": 80, "ninety": 90}
var scaleWords = map[string]int{"thousand": 1, "million": 2, "billion": 3, "trillion": 4, "quadrillion": 5, "quintillion": 6,
	"sextillion": 7, "septillion": 8, "octillion": 9, "nonillion": 10, "decillion": 11, "undecillion": 12, "duodecillion": 13,
	"tredecillion": 14, "quattuordecillion": 15, "quindecillion": 16, "sexdecillion": 17, "septendecillion": 18,
	"octodecillion": 19, "novemdecillion": 20, "vigintillion": 21}
var ordinalBack = map[string]string{"first": "one", "second": "two", "third": "three", "fifth": "five", "eighth": "eight",
	"ninth": "nine", "twelfth": "twelve", "zeroth": "zero"}

// parseEnglish reads a cardinal or ordinal number name.
func parseEnglish(s string) (*big.Int, bool, error) {
	toks := strings.FieldsFunc(s, func(c rune) bool { return c == ' ' || c == '-' })
	if strings.Contains(s, "  ") || strings.HasPrefix(s, " ") || strings.HasSuffix(s, " ") || len(toks) == 0 {
		return nil, false, fmt.Errorf("stray spaces")
	}
	neg := false
	if toks[0] == "minus" || toks[0] == "negative" {
		neg = true
		toks = toks[1:]
		if len(toks) == 0 {
			return nil, false, fmt.Errorf("sign only")
		}
	}
	ordinal := false
	last := toks[len(toks)-1]
	if back, ok := ordinalBack[last]; ok {
		ordinal = true
		toks[len(toks)-1] = back
	} else if strings.HasSuffix(last, "ieth") {
		ordinal = true
		toks[len(toks)-1] = strings.TrimSuffix(last, "ieth") + "y"
	} else if strings.HasSuffix(last, "th") {
		ordinal = true
		toks[len(toks)-1] = strings.TrimSuffix(last, "th")
	}
	if len(toks) == 1 && toks[0] == "zero" {
		if neg {
			return nil, false, fmt.Errorf("minus zero")
		}
		return new(big.Int), ordinal, nil
	}
	total := new(big.Int)
	group := 0      // value of the group being read
	state := 0      // 0 nothing, 1 unit (may take "hundred"), 2 hundred, 3 tens, 4 complete below hundred
	lastScale := 22 // scales must decrease
	for _, t := range toks {
		if v, ok := unitWords[t]; ok {
			switch {
			case state == 0 || state == 2:
				group += v
				if v < 10 && state == 0 {
					state = 1
				} else {
					state = 4
				}
			case state == 3 && v < 10:
				group += v
				state = 4
			default:
				return nil, false, fmt.Errorf("unexpected %q", t)
			}
			continue
		}
		if v, ok := tenWords[t]; ok {
			if state != 0 && state != 2 {
				return nil, false, fmt.Errorf("unexpected %q", t)
			}
			group += v
			state = 3
			continue
		}
		if t == "hundred" {
			if state != 1 {
				return nil, false, fmt.Errorf("unexpected hundred")
			}
			group *= 100
			state = 2
			continue
		}
		if k, ok := scaleWords[t]; ok {
			if state == 0 || lastScale <= k {
				return nil, false, fmt.Errorf("unexpected %q", t)
			}
			lastScale = k
			p := new(big.Int).Exp(big.NewInt(1000), big.NewInt(int64(k)), nil)
			total.Add(total, p.Mul(p, big.NewInt(int64(group))))
			group, state = 0, 0
			continue
		}
		return nil, false, fmt.Errorf("unknown word %q", t)
	}
	total.Add(total, big.NewInt(int64(group)))
	if neg {
		total.Neg(total)
	}
	return total, ordinal, nil
}
