package c15

import (
	"fmt"
	"math/big"
	"math/rand/v2"
	"strings"

	"verif/internal/c15/ref"
)

// tmpl is a piece of control string with a recipe for the arguments one pass
// through it consumes. n is the fixed number of arguments per pass; open
// means the piece consumes every remaining argument (so it must come last
// among the argument consuming pieces of its context).
type tmpl struct {
	text   string
	n      int
	inst   func(r *rand.Rand) []ref.Val
	carets []int // arguments consumed before each top-level ~^
	open   bool
	kind   byte // for blocks: ( [ {
}

func lit(s string) tmpl { return tmpl{text: s} }

func (t tmpl) args(r *rand.Rand) []ref.Val {
	if t.inst == nil {
		return nil
	}
	return t.inst(r)
}

func cat(ts ...tmpl) tmpl {
	var out tmpl
	var insts []func(r *rand.Rand) []ref.Val
	for _, t := range ts {
		for _, c := range t.carets {
			out.carets = append(out.carets, out.n+c)
		}
		out.text += t.text
		out.n += t.n
		if t.inst != nil {
			insts = append(insts, t.inst)
		}
		if t.open {
			out.open = true
		}
	}
	out.inst = func(r *rand.Rand) []ref.Val {
		var vs []ref.Val
		for _, f := range insts {
			vs = append(vs, f(r)...)
		}
		return vs
	}
	return out
}

// dirty features: constructs the tree is known to get wrong (open findings). A
// clean case contains none; a dirty case is allowed exactly one of them.
var dirtyFeatures = []string{
	"caret", "tab-colinc", "tab-default", "tab-in-block", "amp-in-block", "case-word", "nonascii",
}

// repaired in /repo (findings with status "fixed: ..."): generated freely in
// the clean stream again, each with the share given here (1 in n of the places
// where it can occur).
var repairedFeatures = map[string]int{
	"nest-same": 2, "nest-param": 2, "nest-close-colon": 2, "sep-struct": 2, "tilde-param": 2, "empty-string": 2,
	"tab-colinc-0": 2, // 62dc4c3
	// round 3 repairs: 2fb00e6 86120c1 8cdb63c 5de4915 fa90c6c 02ef7a0 6640fd9 0d6d9f2 a05cc9c 7ccbe9e
	"charparam": 3, "plus-param": 6, "upper-v": 4, "v-nil": 1, "radix": 4, "proc-nil": 2, "cond-bignum": 2, "octet": 4,
	"nonint": 8, "english": 1,
}

// G generates templates.
type G struct {
	r     *rand.Rand
	dirty string
	hit   *bool // the dirty feature was actually used (shared by copies of G)
}

func (g *G) allow(f string) bool { return 0 < repairedFeatures[f] || g.dirty == f }

func (g *G) use(f string) bool {
	if n := repairedFeatures[f]; 0 < n {
		return g.r.IntN(n) == 0
	}
	if g.dirty == f && (!*g.hit || g.r.IntN(3) == 0) {
		*g.hit = true
		return true
	}
	return false
}

func iv(n int64) ref.Val                { return ref.Val{K: "i", S: fmt.Sprint(n)} }
func bv(n *big.Int) ref.Val             { return ref.Val{K: "i", S: n.String()} }
func sv(s string) ref.Val               { return ref.Val{K: "s", S: s} }
func cv(c rune) ref.Val                 { return ref.Val{K: "c", S: string(c)} }
func yv(s string) ref.Val               { return ref.Val{K: "y", S: s} }
func lv(vs ...ref.Val) ref.Val          { return ref.Val{K: "l", L: vs} }
func nilv() ref.Val                     { return ref.Val{K: "l"} }
func pow(b, e int64) *big.Int           { return new(big.Int).Exp(big.NewInt(b), big.NewInt(e), nil) }
func addi(x *big.Int, d int64) *big.Int { return new(big.Int).Add(x, big.NewInt(d)) }

// intGrid is the boundary grid shared with C05 plus decimal boundaries.
var intGrid []*big.Int

func init() {
	add := func(x *big.Int) { intGrid = append(intGrid, x, new(big.Int).Neg(x)) }
	for _, k := range []int64{31, 32, 62, 63, 64} {
		add(pow(2, k))
		add(addi(pow(2, k), -1))
		add(addi(pow(2, k), 1))
	}
	for _, k := range []int64{1, 2, 3, 4, 6, 9, 12, 18, 19, 20, 30, 65} {
		add(pow(10, k))
		add(addi(pow(10, k), -1))
	}
	for _, v := range []int64{0, 1, 2, 7, 8, 9, 10, 15, 16, 17, 99, 100, 255, 256, 999, 1000, 1001, 1234567, 4095, 4096} {
		add(big.NewInt(v))
	}
}

func randBits(r *rand.Rand, bits int) *big.Int {
	x := new(big.Int)
	for i := 0; i < bits; i += 32 {
		x.Lsh(x, 32)
		x.Or(x, big.NewInt(int64(r.Uint32())))
	}
	if bits < x.BitLen() {
		x.Rsh(x, uint(x.BitLen()-bits))
	}
	return x
}

func octv(n int64) ref.Val { return ref.Val{K: "i", S: fmt.Sprint(n), Oct: true} }

// genInt: integers for the directives that print them (~D ~B ~O ~X ~A ~S);
// one in twelve is an octet, slip's third integer representation.
func genInt(r *rand.Rand) ref.Val {
	if r.IntN(12) == 0 {
		return octv(int64(fwPick(r, []int{0, 1, 2, 7, 9, 10, 99, 100, 127, 128, 200, 255})))
	}
	switch r.IntN(8) {
	case 0, 1:
		return iv(int64(r.IntN(41) - 20))
	case 2:
		return bv(fwPick(r, intGrid))
	case 3:
		return iv(int64(r.IntN(2000001) - 1000000))
	case 4:
		x := new(big.Int).Set(fwPick(r, intGrid))
		return bv(x.Add(x, big.NewInt(int64(r.IntN(7)-3))))
	}
	x := randBits(r, 1+r.IntN(215))
	if r.IntN(2) == 0 {
		x.Neg(x)
	}
	return bv(x)
}

func fwPick[T any](r *rand.Rand, xs []T) T { return xs[r.IntN(len(xs))] }

const letters = "abcdefghijklmnopqrstuvwxyzABCDEFGHIJKLMNOPQRSTUVWXYZ"

func genWord(r *rand.Rand) string {
	n := 1 + r.IntN(6)
	b := make([]byte, n)
	for i := range b {
		b[i] = letters[r.IntN(len(letters))]
	}
	return string(b)
}

// genStr makes string arguments: words, spaces, punctuation, and now and then
// characters that are special to format or to the reader.
func (g *G) genStr() ref.Val {
	r := g.r
	switch r.IntN(10) {
	case 0:
		if g.use("empty-string") {
			return sv("")
		}
	case 1:
		return sv(genWord(r) + " " + genWord(r))
	case 2:
		return sv(fwPick(r, []string{"~a", "a~%b", "~", "x\"y", "back\\slash", "semi;colon", "(paren)", "#hash", "'q", "tab\there", "~{~}"}))
	case 3:
		return sv(genWord(r) + "\n" + genWord(r))
	case 4:
		if g.use("nonascii") {
			return sv(fwPick(r, []string{"é", "naïve", "λx", "日本", "a→b", "ß"}))
		}
	}
	return sv(genWord(r))
}

func (g *G) genChar() ref.Val {
	r := g.r
	if g.use("nonascii") {
		return cv(fwPick(r, []rune{'é', 'λ', '日', '→'}))
	}
	return cv(fwPick(r, []rune("abcxyzABZ019!?.+-_*/ \n")))
}

func genSym(r *rand.Rand) ref.Val {
	return yv(fwPick(r, []string{"foo", "bar", "baz-qux", ":key", "x1", "car"}))
}

func (g *G) genAtom() ref.Val {
	switch g.r.IntN(6) {
	case 0, 1:
		return genInt(g.r)
	case 2, 3:
		return g.genStr()
	case 4:
		return genSym(g.r)
	}
	return g.genChar()
}

func (g *G) genList(depth int) ref.Val {
	n := g.r.IntN(5)
	vs := make([]ref.Val, 0, n)
	for i := 0; i < n; i++ {
		if depth < 2 && g.r.IntN(5) == 0 {
			vs = append(vs, g.genList(depth+1))
		} else {
			vs = append(vs, g.genAtom())
		}
	}
	return lv(vs...)
}

// objectSources are the other object kinds ~A and ~S must render as princ and
// prin1 do: floats, ratios, complex, vectors, arrays, bit vectors, dotted
// lists, quote forms, characters and strings nested in them.
var objectSources = []string{
	"1.5", "-0.25", "1.0d0", "1.5e20", "1.0e-7", "0.0", "123456.789d0", "1/3", "-22/7", "#C(1 2)",
	"#(1 2 3)", "#()", "#(1 \"a\" #\\b foo)", "#(#(1 2) (3 . 4))", "(make-array '(2 2) :initial-element 0)",
	"(make-array '(2 3) :initial-contents '((1 2 3) (\"a\" #\\b c)))", "#*1011", "#*",
	"'(1 . 2)", "'(1 2 . 3)", "'((a . 1) (b . 2))", "'(\"x\" . #\\y)", "'(quote a)", "'(quote (1 2))", "'(function car)",
	"'(a 'b \"c\" #\\d 1.5)", "'(1 (2 (3 (4 . 5))))", "t", "#\\Space", "#\\Newline", "#\\a",
	"\"quo\\\"te\"", "\"back\\\\slash\"", "'(\"quo\\\"te\" #\\x (\"in\" . \"ner\"))",
}

func ov(src string) ref.Val { return ref.Val{K: "o", S: src} }

func (g *G) genAny() ref.Val {
	switch g.r.IntN(6) {
	case 0:
		return g.genList(0)
	case 1:
		return ov(fwPick(g.r, objectSources))
	}
	return g.genAtom()
}

// ---------------------------------------------------------------------------
// prefix parameters

type pslot struct {
	kind    byte // 'n' or 'c'
	lo, hi  int
	hashOK  bool
	hashMix bool // # is drawn in a mixture (where any number of arguments left is a legal value)
	p       int  // chance in 100 that the slot is given
	noNil   bool // no nil v here: it would meet an open finding (~T: the default column) or is undefined (~R: no radix but other parameters)
}

var cleanPadChars = []rune("0 .-_+!;\"")
var dirtyPadChars = []rune("*x,a~'#d:@s(/$%&)X")

func (g *G) quoted() string {
	if g.use("charparam") {
		return "'" + string(fwPick(g.r, dirtyPadChars))
	}
	if g.use("nonascii") {
		return "'" + string(fwPick(g.r, []rune("é·→")))
	}
	return "'" + string(fwPick(g.r, cleanPadChars))
}

// params renders the parameter list for the slots and returns the generators
// of the arguments its v parameters consume. One directive in three is a
// mixture: every slot draws independently and evenly from literal, omitted, v
// (given a value or nil) and, for integer slots, #; so v and # meet in one
// parameter list in every order. Elsewhere a slot is given with its own
// probability and is mostly a literal.
func (g *G) params(slots []pslot) (string, []func(r *rand.Rand) ref.Val) {
	r := g.r
	var parts []string
	var pre []func(r *rand.Rand) ref.Val
	mix := r.IntN(3) == 0
	for _, s := range slots {
		lo, hi := s.lo, s.hi
		k := r.IntN(10)
		if mix {
			if s.p == 0 {
				parts = append(parts, "")
				continue
			}
			// 0 v, 1 #, 2 literal, 3 omitted
			switch r.IntN(5) {
			case 0, 1:
				k = 0
			case 2:
				k = 1
				if !(s.hashOK || s.hashMix) || s.kind != 'n' {
					k = 2
				}
			case 3:
				k = 2
			default:
				if s.p < 100 {
					parts = append(parts, "")
					continue
				}
				k = 2
			}
		} else if s.p <= r.IntN(100) {
			parts = append(parts, "")
			continue
		}
		switch {
		case k == 0: // v
			vch := "v"
			if g.use("upper-v") {
				vch = "V"
			}
			parts = append(parts, vch)
			nilP := 8
			if mix {
				nilP = 3
			}
			if s.kind == 'n' {
				nilOK := !s.noNil
				pre = append(pre, func(r *rand.Rand) ref.Val {
					if r.IntN(nilP) == 0 && nilOK {
						return nilv()
					}
					return iv(int64(lo + r.IntN(hi-lo+1)))
				})
			} else {
				dirty := g.use("nonascii")
				pre = append(pre, func(r *rand.Rand) ref.Val {
					if r.IntN(nilP) == 0 {
						return nilv()
					}
					if dirty {
						return cv(fwPick(r, []rune("é·→")))
					}
					return cv(fwPick(r, []rune("0 .-_+!=*x,a~'#;Z")))
				})
			}
		case k == 1 && (s.hashOK || (mix && s.hashMix)) && s.kind == 'n':
			parts = append(parts, "#")
		case s.kind == 'n':
			sign := ""
			if g.use("plus-param") {
				sign = "+" // CLHS 22.3: prefix parameters are signed decimal numbers, the sign optional
			}
			parts = append(parts, sign+fmt.Sprint(lo+r.IntN(hi-lo+1)))
		default:
			parts = append(parts, g.quoted())
		}
	}
	for 0 < len(parts) && parts[len(parts)-1] == "" {
		parts = parts[:len(parts)-1]
	}
	return strings.Join(parts, ","), pre
}

func (g *G) mods(colon, at bool) string {
	m := ""
	if colon && g.r.IntN(2) == 0 {
		m += ":"
	}
	if at && g.r.IntN(2) == 0 {
		if m != "" && g.r.IntN(4) == 0 {
			return "@" + m
		}
		m += "@"
	}
	return m
}

func (g *G) letter(c byte) string {
	if g.r.IntN(6) == 0 {
		return strings.ToUpper(string(c))
	}
	return string(c)
}

func withPre(pre []func(r *rand.Rand) ref.Val, main func(r *rand.Rand) []ref.Val) func(r *rand.Rand) []ref.Val {
	return func(r *rand.Rand) []ref.Val {
		var vs []ref.Val
		for _, f := range pre {
			vs = append(vs, f(r))
		}
		if main != nil {
			vs = append(vs, main(r)...)
		}
		return vs
	}
}

// ---------------------------------------------------------------------------
// directive pieces

func (g *G) mincolSlot() pslot {
	hi := 12
	if g.r.IntN(4) == 0 {
		hi = 80
	}
	return pslot{kind: 'n', lo: 0, hi: hi, hashOK: true, p: 50}
}

// intDirFor renders an integer directive; the caller supplies the argument.
func (g *G) intDirText() (string, []func(r *rand.Rand) ref.Val) {
	if g.use("radix") {
		ptxt, pre := g.params([]pslot{{kind: 'n', lo: 2, hi: 36, p: 100, noNil: true}, g.mincolSlot(), {kind: 'c', p: 30}, {kind: 'c', p: 30}, {kind: 'n', lo: 1, hi: 4, p: 30, hashMix: true}})
		return "~" + ptxt + g.mods(true, true) + g.letter('r'), pre
	}
	// (# as the comma interval is at least 1: the integer itself is still to come)
	ptxt, pre := g.params([]pslot{g.mincolSlot(), {kind: 'c', p: 35}, {kind: 'c', p: 35}, {kind: 'n', lo: 1, hi: 4, p: 35, hashMix: true}})
	return "~" + ptxt + g.mods(true, true) + g.letter("dbox"[g.r.IntN(4)]), pre
}

func (g *G) intDir() tmpl {
	txt, pre := g.intDirText()
	if g.use("nonint") {
		which := g.r.IntN(3)
		str := g.genStr()
		return tmpl{text: "~" + g.letter("dbox"[g.r.IntN(4)]), n: 1, inst: func(r *rand.Rand) []ref.Val {
			switch which {
			case 0:
				return []ref.Val{str}
			case 1:
				return []ref.Val{genSym(r)}
			}
			return []ref.Val{lv(iv(1), sv("a"))}
		}}
	}
	return tmpl{text: txt, n: len(pre) + 1, inst: withPre(pre, func(r *rand.Rand) []ref.Val { return []ref.Val{genInt(r)} })}
}

func (g *G) asDirText() (string, []func(r *rand.Rand) ref.Val) {
	ptxt, pre := g.params([]pslot{g.mincolSlot(), {kind: 'n', lo: 1, hi: 5, p: 25, hashMix: true}, {kind: 'n', lo: 0, hi: 4, p: 25, hashMix: true}, {kind: 'c', p: 30}})
	return "~" + ptxt + g.mods(true, true) + g.letter("as"[g.r.IntN(2)]), pre
}

func (g *G) asDir() tmpl {
	txt, pre := g.asDirText()
	gg := *g
	return tmpl{text: txt, n: len(pre) + 1, inst: withPre(pre, func(r *rand.Rand) []ref.Val {
		h := gg
		h.r = r
		if r.IntN(8) == 0 {
			return []ref.Val{nilv()}
		}
		return []ref.Val{h.genAny()}
	})}
}

// englishClean tells whether slip's speller is not known to be wrong for n
// (see the findings: a group with tens >= 2 and units 0, a lowest group of
// 000, ordinals ending in hundred).
func englishClean(n *big.Int, ordinal bool) bool {
	a := new(big.Int).Abs(n)
	if a.Sign() == 0 {
		return true
	}
	return len(englishClasses(n, ordinal)) == 0
}

func (g *G) englishInt(ordinal bool) func(r *rand.Rand) ref.Val {
	dirty := g.use("english")
	return func(r *rand.Rand) ref.Val {
		for {
			var x *big.Int
			switch r.IntN(5) {
			case 0:
				x = big.NewInt(int64(r.IntN(200)))
			case 1:
				x = big.NewInt(int64(r.IntN(2000000)))
			case 2:
				x = randBits(r, 1+r.IntN(59))
			case 3:
				x = new(big.Int).Mul(big.NewInt(int64(1+r.IntN(999))), pow(1000, int64(r.IntN(6))))
				x.Add(x, big.NewInt(int64(r.IntN(1000))))
			default:
				x = randBits(r, 1+r.IntN(218))
			}
			if r.IntN(5) == 0 {
				x.Neg(x)
			}
			if 0 <= new(big.Int).Abs(x).Cmp(ref.EnglishLimit) {
				continue
			}
			if dirty || englishClean(x, ordinal) {
				return bv(x)
			}
		}
	}
}

func (g *G) rDir() tmpl {
	m := []string{"", ":", "@", ":@", "@:"}[g.r.IntN(5)]
	txt := "~" + m + g.letter('r')
	if strings.Contains(m, "@") {
		out := false
		return tmpl{text: txt, n: 1, inst: func(r *rand.Rand) []ref.Val {
			if out {
				return []ref.Val{iv(int64(fwPick(r, []int{0, -1, 4000, 5000, 3999, 1})))}
			}
			return []ref.Val{iv(int64(1 + r.IntN(3999)))}
		}}
	}
	f := g.englishInt(m == ":")
	if g.use("octet") {
		// an octet is an integer too (open finding: ~R ~P ~[ do not take it)
		return tmpl{text: txt, n: 1, inst: func(r *rand.Rand) []ref.Val {
			return []ref.Val{octv(int64(fwPick(r, []int{0, 1, 2, 7, 13, 21, 99, 101, 255})))}
		}}
	}
	return tmpl{text: txt, n: 1, inst: func(r *rand.Rand) []ref.Val { return []ref.Val{f(r)} }}
}

func (g *G) cDir() tmpl {
	m := []string{"", "", ":", "@", ":@"}[g.r.IntN(5)]
	gg := *g
	return tmpl{text: "~" + m + g.letter('c'), n: 1, inst: func(r *rand.Rand) []ref.Val {
		h := gg
		h.r = r
		return []ref.Val{h.genChar()}
	}}
}

func (g *G) simpleDir(inBlock bool) tmpl {
	ch := "%&~"[g.r.IntN(3)]
	if ch == '&' && inBlock && !g.use("amp-in-block") {
		ch = '%'
	}
	ptxt, pre := g.params([]pslot{{kind: 'n', lo: 0, hi: 3, hashOK: true, p: 40}})
	if ch == '~' && ptxt != "" && inBlock && !g.use("tilde-param") {
		ptxt, pre = "", nil
	}
	return tmpl{text: "~" + ptxt + string(ch), n: len(pre), inst: withPre(pre, nil)}
}

func (g *G) tDir(inBlock bool) tmpl {
	if inBlock && !g.use("tab-in-block") {
		return lit(" ")
	}
	at := g.r.IntN(3) == 0
	m := ""
	if at {
		m = "@"
	}
	var slots []pslot
	switch {
	case g.use("tab-default"):
		slots = []pslot{{kind: 'n', lo: 0, hi: 20, p: 0}, {kind: 'n', lo: 0, hi: 8, p: 30}}
	case g.use("tab-colinc-0"):
		slots = []pslot{{kind: 'n', lo: 0, hi: 20, hashOK: true, p: 100}, {kind: 'n', lo: 0, hi: 0, p: 100}}
	case at:
		slots = []pslot{{kind: 'n', lo: 0, hi: 20, hashOK: true, p: 100}, {kind: 'n', lo: 1, hi: 8, p: 100}}
	case g.use("tab-colinc"):
		slots = []pslot{{kind: 'n', lo: 0, hi: 20, hashOK: true, p: 100}, {kind: 'n', lo: 2, hi: 8, p: 100}}
	default:
		slots = []pslot{{kind: 'n', lo: 0, hi: 20, hashOK: true, p: 100}, {kind: 'n', lo: 1, hi: 1, p: 30}}
	}
	if !g.allow("tab-default") {
		slots[0].noNil = true // a nil v parameter means the default column
	}
	ptxt, pre := g.params(slots)
	return tmpl{text: "~" + ptxt + m + g.letter('t'), n: len(pre), inst: withPre(pre, nil)}
}

var literalAlphabet = []string{"a", "b", "c", "x", "y", "z", "Q", "R", "Z", " ", " ", " ", ".", ",", "-", "!", "1", "2", "0", "=", "<", ">", "|", "_"}

func (g *G) literal() tmpl {
	n := 1 + g.r.IntN(4)
	var b strings.Builder
	for i := 0; i < n; i++ {
		b.WriteString(fwPick(g.r, literalAlphabet))
	}
	if g.r.IntN(12) == 0 {
		b.WriteString(fwPick(g.r, []string{":", "@", ";", "]", "}", ")", "(", "[", "{", "#", "'", "v", "\n"}))
	}
	return lit(b.String())
}

// pluralDir: an integer directive followed by a word and ~:P / ~:@P, or a
// plain ~P / ~@P with its own argument.
func (g *G) pluralDir() tmpl {
	r := g.r
	if r.IntN(2) == 0 {
		m := []string{":", ":@", "@:"}[r.IntN(3)]
		return tmpl{text: "~d " + genWord(r) + "~" + m + g.letter('p'), n: 1, inst: func(r *rand.Rand) []ref.Val {
			return []ref.Val{iv(int64(r.IntN(4)))}
		}}
	}
	m := []string{"", "@"}[r.IntN(2)]
	odd := g.r.IntN(8) == 0
	oct := g.use("octet")
	return tmpl{text: "~" + m + g.letter('p'), n: 1, inst: func(r *rand.Rand) []ref.Val {
		if oct {
			return []ref.Val{octv(int64(r.IntN(3)))}
		}
		if odd {
			return []ref.Val{fwPick(r, []ref.Val{sv("1"), yv("foo"), nilv(), bv(pow(2, 64)), ov("1.0"), ov("1.0d0"), ov("3/2"), cv('1')})}
		}
		return []ref.Val{iv(int64(r.IntN(4) - 1))}
	}}
}

// starDir: argument navigation.
func (g *G) starDir() tmpl {
	r := g.r
	switch r.IntN(3) {
	case 0: // print, back up, print again
		k := 1 + r.IntN(2)
		var pieces []tmpl
		for i := 0; i < k; i++ {
			pieces = append(pieces, lit("~"+[]string{"a", "s", "d", "x"}[r.IntN(4)]))
		}
		back := "~:*"
		if 1 < k || r.IntN(3) == 0 {
			back = fmt.Sprintf("~%d:*", k)
		}
		pieces = append(pieces, lit(back))
		for i := 0; i < k; i++ {
			pieces = append(pieces, lit("~"+[]string{"a", "s", "d", "o"}[r.IntN(4)]))
		}
		t := cat(pieces...)
		t.n = k
		t.inst = func(r *rand.Rand) []ref.Val {
			vs := make([]ref.Val, k)
			for i := range vs {
				vs[i] = genInt(r)
			}
			return vs
		}
		return t
	case 1: // skip forward over unused arguments
		k := r.IntN(3)
		txt := "~*"
		if k != 1 || r.IntN(2) == 0 {
			txt = fmt.Sprintf("~%d*", k)
		}
		gg := *g
		return tmpl{text: txt, n: k, inst: func(r *rand.Rand) []ref.Val {
			h := gg
			h.r = r
			vs := make([]ref.Val, k)
			for i := range vs {
				vs[i] = h.genAny()
			}
			return vs
		}}
	}
	// v-parameter skip: ~v* consumes the count and then skips
	k := r.IntN(3)
	gg := *g
	nilCount := k == 1 && r.IntN(2) == 0 // a nil count is an omitted one: skip 1
	return tmpl{text: "~v*", n: k + 1, inst: func(r *rand.Rand) []ref.Val {
		h := gg
		h.r = r
		vs := []ref.Val{iv(int64(k))}
		if nilCount {
			vs[0] = nilv()
		}
		for i := 0; i < k; i++ {
			vs = append(vs, h.genAny())
		}
		return vs
	}}
}

type env struct {
	depth   int
	inBlock bool
	in      [3]bool // somewhere inside a ~( / ~[ / ~{ block
	inIter  bool    // directly in the body of an iteration
}

func kindIdx(k byte) int { return strings.IndexByte("([{", k) }

func (e env) inside(k byte) bool { return e.in[kindIdx(k)] }

func (e env) enter(k byte) env {
	out := env{depth: e.depth + 1, inBlock: true, in: e.in}
	out.in[kindIdx(k)] = true
	return out
}

func (g *G) leaf(e env) tmpl {
	switch g.r.IntN(16) {
	case 0, 1, 2:
		return g.intDir()
	case 3, 4, 5:
		return g.asDir()
	case 6, 7:
		return g.rDir()
	case 8:
		return g.cDir()
	case 9:
		return g.simpleDir(e.inBlock)
	case 10:
		return g.tDir(e.inBlock)
	case 11:
		return g.pluralDir()
	case 12:
		return g.starDir()
	}
	return g.literal()
}

// seq makes a sequence of 1..k pieces in environment e. If needArg is set the
// sequence consumes at least one argument.
func (g *G) seq(e env, k int, needArg bool) tmpl {
	n := 1 + g.r.IntN(k)
	var ps []tmpl
	open := false
	for i := 0; i < n; i++ {
		var t tmpl
		if e.depth < 3 && g.r.IntN(4) == 0 {
			t = g.block(e)
		} else {
			t = g.leaf(e)
		}
		if open && (0 < t.n || t.open) {
			continue
		}
		if t.open {
			open = true
		}
		// a block of the same type as the enclosing one, or any block
		// inside ~[, is followed by a literal unless the case is about that
		if t.kind != 0 && e.inside(t.kind) && !g.use("nest-same") {
			t = cat(t, lit(fwPick(g.r, []string{" ", ".", "x"})))
		}
		ps = append(ps, t)
		if e.inIter && g.use("caret") {
			ps = append(ps, tmpl{text: "~^", carets: []int{0}})
			if g.r.IntN(2) == 0 {
				ps = append(ps, lit(fwPick(g.r, []string{", ", " ", "-", " and "})))
			}
		}
		if g.r.IntN(3) == 0 {
			ps = append(ps, g.literal())
		}
	}
	out := cat(ps...)
	if needArg && out.n == 0 && !out.open {
		out = cat(out, lit("~a"))
		out.n = 1
		gg := *g
		prev := out.inst
		out.inst = func(r *rand.Rand) []ref.Val {
			h := gg
			h.r = r
			return append(prev(r), h.genAtom())
		}
	}
	return out
}

func (g *G) block(e env) tmpl {
	switch g.r.IntN(7) {
	case 0:
		return g.caseBlock(e.enter('('))
	case 1, 2:
		return g.condBlock(e.enter('['), e.inside('['))
	case 3:
		inner := e
		inner.depth++
		inner.inBlock = true
		inner.inIter = false
		return g.procBlock(inner)
	}
	return g.iterBlock(e.enter('{'), e.inside('{'))
}

var caseWords = []string{"hello world", "FOO bar", "mIxEd Case", "x", "the quick brown fox", "Ab c", "ONE", "two  spaces", "trailing "}
var dirtyCaseWords = []string{"1st place", "x1y 2nd", " leading", "-dash first", "don't", "3rd", "(paren) word", "9", "a-b c", "y.Zc", "s_R", "x:key"}

func (g *G) caseBlock(e env) tmpl {
	m := []string{"", ":", "@", ":@"}[g.r.IntN(4)]
	var body tmpl
	switch {
	case g.use("case-word"):
		body = lit(fwPick(g.r, dirtyCaseWords))
	case g.r.IntN(2) == 0:
		body = lit(fwPick(g.r, caseWords))
	default:
		// directives whose output is words of letters, or digits and spaces
		var ps []tmpl
		for i, n := 0, 1+g.r.IntN(3); i < n; i++ {
			switch g.r.IntN(8) {
			case 0:
				ps = append(ps, tmpl{text: "~a", n: 1, inst: func(r *rand.Rand) []ref.Val {
					return []ref.Val{sv(fwPick(r, caseWords))}
				}})
			case 1:
				ps = append(ps, tmpl{text: "~@r", n: 1, inst: func(r *rand.Rand) []ref.Val { return []ref.Val{iv(int64(1 + r.IntN(3999)))} }})
			case 2:
				ord := g.r.IntN(2) == 0
				f := g.englishInt(ord)
				txt := "~r"
				if ord {
					txt = "~:r"
				}
				ps = append(ps, tmpl{text: txt, n: 1, inst: func(r *rand.Rand) []ref.Val { return []ref.Val{f(r)} }})
			case 3:
				ps = append(ps, tmpl{text: "~a", n: 1, inst: func(r *rand.Rand) []ref.Val {
					return []ref.Val{yv(fwPick(r, []string{"foo", "bar", "car"}))}
				}})
			case 4:
				ps = append(ps, lit(" "+genWord(g.r)+" "))
			case 5:
				ps = append(ps, lit(" "), tmpl{text: "~d", n: 1, inst: func(r *rand.Rand) []ref.Val { return []ref.Val{genInt(r)} }}, lit(" "))
			case 6:
				ps = append(ps, tmpl{text: "~{~a ~} ", n: 1, kind: '{', inst: func(r *rand.Rand) []ref.Val {
					k := r.IntN(4)
					vs := make([]ref.Val, k)
					for i := range vs {
						vs[i] = sv(fwPick(r, caseWords))
					}
					return []ref.Val{lv(vs...)}
				}})
			default:
				if g.allow("case-word") {
					ps = append(ps, g.seq(e, 2, false))
				} else {
					ps = append(ps, lit(" "+genWord(g.r)))
				}
			}
		}
		body = cat(ps...)
	}
	if m == "@" && !g.allow("case-word") {
		// the first word starts the text
		body = cat(lit(genWord(g.r)), body)
	}
	t := cat(lit("~"+m+"("), body, lit("~)"))
	t.kind = '('
	return t
}

func (g *G) condBlock(e env, nested bool) tmpl {
	r := g.r
	clause := func(first bool, needFirstArg bool) tmpl {
		t := g.seq(e, 2, false)
		if !first && !g.use("sep-struct") {
			// the clause after a ~; starts with literal text
			t = cat(lit(fwPick(r, []string{"k", "m", " ", "w"})), t)
		}
		return t
	}
	switch r.IntN(6) {
	case 0: // ~:[
		isNil := r.IntN(2) == 0
		c0, c1 := clause(true, false), clause(false, false)
		sel := c1
		if isNil {
			sel = c0
		}
		gg := *g
		t := tmpl{text: "~:[" + c0.text + "~;" + c1.text + "~]", n: 1 + sel.n, open: sel.open, kind: '[', inst: func(r *rand.Rand) []ref.Val {
			h := gg
			h.r = r
			v := nilv()
			if !isNil {
				v = h.genAtom()
			}
			return append([]ref.Val{v}, sel.args(r)...)
		}}
		return t
	case 1: // ~@[
		isNil := r.IntN(3) == 0
		first := lit("~" + []string{"a", "s", "a", "5a"}[r.IntN(4)])
		rest := g.seq(e, 2, false)
		body := cat(first, rest)
		gg := *g
		if isNil {
			return tmpl{text: "~@[" + body.text + "~]", n: 1, kind: '[', inst: func(r *rand.Rand) []ref.Val { return []ref.Val{nilv()} }}
		}
		return tmpl{text: "~@[" + body.text + "~]", n: 1 + rest.n, open: rest.open, kind: '[', inst: func(r *rand.Rand) []ref.Val {
			h := gg
			h.r = r
			return append([]ref.Val{h.genAtom()}, rest.args(r)...)
		}}
	case 2: // ~#[ with argument-free clauses
		if nested && !g.use("nest-param") {
			return lit("~~")
		}
		n := 1 + r.IntN(4)
		var parts []string
		for i := 0; i < n; i++ {
			s := fwPick(r, []string{"none", "one", "two", "many", "", "~%", "~~", "k"})
			if 0 < i && s == "" && !g.use("sep-struct") {
				s = "e"
			}
			if 0 < i && strings.HasPrefix(s, "~") {
				s = "q" + s
			}
			parts = append(parts, s)
		}
		txt := "~#[" + strings.Join(parts, "~;")
		if r.IntN(2) == 0 {
			txt += "~:;" + fwPick(r, []string{"lots", "d", "etc"})
		}
		return tmpl{text: txt + "~]", kind: '['}
	}
	// numeric selection
	n := 1 + r.IntN(4)
	hasDef := r.IntN(3) == 0
	var sel int
	switch r.IntN(6) {
	case 0:
		sel = -1 - r.IntN(3)
	case 1:
		sel = n + r.IntN(3)
	default:
		sel = r.IntN(n)
	}
	cs := make([]tmpl, n)
	for i := range cs {
		cs[i] = clause(i == 0, false)
	}
	def := clause(false, false)
	txt := "~["
	if r.IntN(8) == 0 && 0 <= sel && (!nested || g.use("nest-param")) {
		txt = fmt.Sprintf("~%d[", sel) // prefix parameter instead of an argument
	}
	byParam := txt != "~["
	for i, c := range cs {
		if 0 < i {
			txt += "~;"
		}
		txt += c.text
	}
	if hasDef {
		txt += "~:;" + def.text
	}
	txt += "~]"
	var chosen tmpl
	switch {
	case 0 <= sel && sel < n:
		chosen = cs[sel]
	case hasDef:
		chosen = def
	}
	big := (sel < 0 || n <= sel) && g.use("cond-bignum")
	oct := 0 <= sel && g.use("octet")
	t := tmpl{text: txt, n: chosen.n, open: chosen.open, kind: '['}
	if !byParam {
		t.n++
	}
	t.inst = func(r *rand.Rand) []ref.Val {
		var vs []ref.Val
		if !byParam {
			v := iv(int64(sel))
			if oct {
				v = octv(int64(sel))
			}
			if big && r.IntN(3) == 0 {
				v = bv(fwPick(r, intGrid))
				if x, _ := v.Int(); x.IsInt64() && 0 <= x.Int64() && x.Int64() < int64(n) {
					v = iv(int64(sel))
				}
			}
			vs = append(vs, v)
		}
		return append(vs, chosen.args(r)...)
	}
	return t
}

func (g *G) procBlock(e env) tmpl {
	sub := g.seq(env{depth: e.depth, inBlock: true}, 3, false)
	if sub.open {
		sub = lit("~a")
		sub.n = 1
		sub.inst = func(r *rand.Rand) []ref.Val { return []ref.Val{genInt(r)} }
	}
	if g.r.IntN(2) == 0 && (0 < sub.n || g.use("proc-nil")) {
		return tmpl{text: "~?", n: 2, inst: func(r *rand.Rand) []ref.Val {
			return []ref.Val{sv(sub.text), lv(sub.args(r)...)}
		}}
	}
	return tmpl{text: "~@?", n: 1 + sub.n, inst: func(r *rand.Rand) []ref.Val {
		return append([]ref.Val{sv(sub.text)}, sub.args(r)...)
	}}
}

func (g *G) iterBlock(e env, nested bool) tmpl {
	e.inIter = true
	r := g.r
	if r.IntN(12) == 0 && !nested {
		// ~:} runs an argument-free body once although nothing is left
		body := fwPick(r, []string{"x", "none", "~%", "-~~-", "k~2%"})
		if r.IntN(2) == 0 {
			return tmpl{text: "~{" + body + "~:}", n: 1, kind: '{', inst: func(r *rand.Rand) []ref.Val { return []ref.Val{nilv()} }}
		}
		return tmpl{text: "~@{" + body + "~:}", open: true, kind: '{'}
	}
	body := g.seq(e, 3, true)
	if body.open {
		body = cat(lit("<"), tmpl{text: "~a", n: 1, inst: func(r *rand.Rand) []ref.Val { return []ref.Val{genInt(r)} }}, lit(">"))
	}
	variant := r.IntN(4) // 0 ~{ 1 ~:{ 2 ~@{ 3 ~:@{
	head := []string{"", ":", "@", ":@"}[variant]
	closeColon := (variant == 0 || variant == 2) && r.IntN(6) == 0 && (!nested || g.use("nest-close-colon"))
	var ptxt string
	var pre []func(r *rand.Rand) ref.Val
	if r.IntN(4) == 0 {
		ptxt, pre = g.params([]pslot{{kind: 'n', lo: 0, hi: 4, hashOK: variant < 2, p: 100}})
		if ptxt != "" && nested && !g.use("nest-param") {
			// nested iteration with a prefix parameter is a known finding
			ptxt, pre = "", nil
		}
	}
	tail := "~}"
	if closeColon {
		tail = "~:}"
	}
	txt := "~" + ptxt + head + "{" + body.text + tail
	passes := func(r *rand.Rand) [][]ref.Val {
		k := r.IntN(5)
		if closeColon {
			k = 1 + r.IntN(4) // with no elements the body would run without arguments
		}
		out := make([][]ref.Val, 0, k+1)
		for i := 0; i < k; i++ {
			out = append(out, body.args(r))
		}
		// a final pass cut at a ~^
		if 0 < len(body.carets) && r.IntN(2) == 0 {
			c := body.carets[r.IntN(len(body.carets))]
			full := body.args(r)
			if c < len(full) {
				if 0 < c || variant == 1 || variant == 3 {
					out = append(out, full[:c])
				}
			}
		}
		return out
	}
	t := tmpl{text: txt, kind: '{'}
	switch variant {
	case 0:
		t.n = len(pre) + 1
		t.inst = withPre(pre, func(r *rand.Rand) []ref.Val {
			var all []ref.Val
			for _, p := range passes(r) {
				all = append(all, p...)
			}
			return []ref.Val{lv(all...)}
		})
	case 1:
		t.n = len(pre) + 1
		gg := *g
		t.inst = withPre(pre, func(r *rand.Rand) []ref.Val {
			h := gg
			h.r = r
			var subs []ref.Val
			for _, p := range passes(r) {
				if r.IntN(5) == 0 {
					p = append(p, h.genAtom()) // an unused trailing element
				}
				subs = append(subs, lv(p...))
			}
			return []ref.Val{lv(subs...)}
		})
	case 2:
		t.n = len(pre)
		t.open = true
		t.inst = withPre(pre, func(r *rand.Rand) []ref.Val {
			var all []ref.Val
			for _, p := range passes(r) {
				all = append(all, p...)
			}
			return all
		})
	default:
		t.n = len(pre)
		t.open = true
		t.inst = withPre(pre, func(r *rand.Rand) []ref.Val {
			var subs []ref.Val
			for _, p := range passes(r) {
				subs = append(subs, lv(p...))
			}
			return subs
		})
	}
	return t
}

// topLevel composes 1..4 pieces and instantiates the arguments.
func (g *G) topLevel() (string, []ref.Val) {
	e := env{}
	t := g.seq(e, 4, false)
	args := t.args(g.r)
	if g.use("caret") && 0 < len(args) && !t.open {
		// a top-level ~^ with nothing after it left to consume
		t2 := g.seq(e, 2, false)
		return t.text + "~^" + t2.text, args
	}
	hasEmpty := false
	for _, a := range args {
		if a.K == "s" && a.S == "" {
			hasEmpty = true
		}
	}
	if g.r.IntN(12) == 0 && !t.open && 0 < len(args) && !hasEmpty {
		k := g.r.IntN(len(args) + 1)
		txt := t.text + fmt.Sprintf("~%d@*", k)
		if k == 0 && g.r.IntN(2) == 0 {
			txt = t.text + "~@*"
		}
		for i := k; i < len(args); i++ {
			txt += fwPick(g.r, []string{"~a", "~s", "[~a]"})
		}
		return txt, args
	}
	return t.text, args
}
