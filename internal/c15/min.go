package c15

import (
	"math/big"
	"os"
	"regexp"
	"sort"
	"strings"
	"time"
	"unicode"

	"verif/internal/c15/ref"
	"verif/internal/fw"
)

// minimise shrinks a failing (control, arguments) pair greedily while the
// oracle still gives a text and the real format still fails the same way.
// The signature of a violation is computed from the result, so that it names
// the smallest construct that fails rather than the composition it was
// found in.
func minimise(ctl string, args []ref.Val, kind string) (string, []ref.Val) {
	budget := 500
	cur := map[string]bool{}
	for _, f := range features(ctl, args) {
		cur[f] = true
	}
	// a candidate must fail the same way and must not contain a known-broken
	// construct the case did not have (removing text can create one, e.g. a
	// clause that now starts with a directive)
	fails := func(c string, a []ref.Val) bool {
		if budget <= 0 {
			return false
		}
		budget--
		// features need the oracle only; checking them before the real format
		// is run keeps mis-scanned (possibly non-terminating) candidates away
		// from it
		fs := features(c, a)
		for _, f := range fs {
			if !cur[f] {
				return false
			}
		}
		if judge(c, a).kind != kind {
			return false
		}
		cur = map[string]bool{}
		for _, f := range fs {
			cur[f] = true
		}
		return true
	}
	for round := 0; round < 60 && 0 < budget; round++ {
		changed := false
		// unused arguments first: cheap and they make every later step cheaper
		for i := len(args) - 1; 0 <= i; i-- {
			if a2 := dropArg(args, i); fails(ctl, a2) {
				args, changed = a2, true
			}
		}
		if changed {
			continue
		}
		for _, cand := range ctlCandidates(ctl) {
			if cand == ctl {
				continue
			}
			// the same control with the arguments as they are, or with one
			// argument (the one the removed piece consumed) dropped
			if fails(cand, args) {
				ctl, changed = cand, true
				break
			}
			done := false
			for i := range args {
				a2 := dropArg(args, i)
				if fails(cand, a2) {
					ctl, args, changed, done = cand, a2, true, true
					break
				}
			}
			if done {
				break
			}
		}
		if changed {
			continue
		}
		for _, pc := range inlineCandidates(ctl, args) {
			if fails(pc.ctl, pc.args) {
				ctl, args, changed = pc.ctl, pc.args, true
				break
			}
		}
		if changed {
			continue
		}
		for _, a2 := range argCandidates(args) {
			if fails(ctl, a2) {
				args, changed = a2, true
				break
			}
		}
		if !changed {
			break
		}
	}
	return ctl, args
}

// inlineCandidates replaces a ~? / ~@? by the control string it is given.
func inlineCandidates(ctl string, args []ref.Val) []probe {
	dirs, err := ref.Parse(ctl)
	if err != nil {
		return nil
	}
	rs := []rune(ctl)
	var out []probe
	allDirs(dirs, func(d *ref.Dir, depth int, _ *ref.Dir) {
		if d.Ch != '?' || 0 < depth {
			return
		}
		for i, a := range args {
			if a.K != "s" {
				continue
			}
			nc := string(rs[:d.Start]) + a.S + string(rs[d.End:])
			if d.At {
				out = append(out, probe{ctl: nc, args: dropArg(args, i)})
			} else if i+1 < len(args) && args[i+1].K == "l" {
				na := append([]ref.Val{}, args[:i]...)
				na = append(na, args[i+1].L...)
				na = append(na, args[i+2:]...)
				out = append(out, probe{ctl: nc, args: na})
			}
		}
	}, 0, nil)
	return out
}

func dropArg(args []ref.Val, i int) []ref.Val {
	out := make([]ref.Val, 0, len(args)-1)
	out = append(out, args[:i]...)
	return append(out, args[i+1:]...)
}

func allDirs(dirs []*ref.Dir, fn func(d *ref.Dir, depth int, parent *ref.Dir), depth int, parent *ref.Dir) {
	for _, d := range dirs {
		fn(d, depth, parent)
		for _, cl := range d.Clauses {
			allDirs(cl, fn, depth+1, d)
		}
	}
}

// ctlCandidates lists smaller control strings: a piece removed, a block
// replaced by one of its clauses, parameters or modifiers stripped.
func ctlCandidates(ctl string) []string {
	dirs, err := ref.Parse(ctl)
	if err != nil {
		return nil
	}
	rs := []rune(ctl)
	var out []string
	splice := func(st, en int, repl string) {
		out = append(out, string(rs[:st])+repl+string(rs[en:]))
	}
	type item struct {
		d     *ref.Dir
		depth int
	}
	var items []item
	allDirs(dirs, func(d *ref.Dir, depth int, _ *ref.Dir) { items = append(items, item{d, depth}) }, 0, nil)
	// larger removals first
	sort.SliceStable(items, func(i, j int) bool {
		return items[j].d.End-items[j].d.Start < items[i].d.End-items[i].d.Start
	})
	for _, it := range items {
		splice(it.d.Start, it.d.End, "")
	}
	for _, it := range items {
		d := it.d
		for _, sp := range d.ClauseSpan {
			splice(d.Start, d.End, string(rs[sp[0]:sp[1]]))
		}
	}
	for _, it := range items {
		d := it.d
		if d.Ch == 0 {
			if 1 < len([]rune(d.Text)) {
				splice(d.Start, d.End, string([]rune(d.Text)[:1]))
			}
			continue
		}
		if 0 < len(d.Params) {
			splice(d.Start, d.HeadEnd, "~"+modStr(d)+string(d.Raw))
		}
		if d.Colon || d.At {
			ptxt := paramText(d)
			if d.Colon && d.At {
				splice(d.Start, d.HeadEnd, "~"+ptxt+":"+string(d.Raw))
				splice(d.Start, d.HeadEnd, "~"+ptxt+"@"+string(d.Raw))
			}
			splice(d.Start, d.HeadEnd, "~"+ptxt+string(d.Raw))
		}
		// drop the parameters one at a time from the right
		if 0 < len(d.Params) {
			keep := *d
			keep.Params = d.Params[:len(d.Params)-1]
			splice(d.Start, d.HeadEnd, "~"+paramText(&keep)+modStr(d)+string(d.Raw))
			for i := range d.Params {
				if d.Params[i].Kind == 0 {
					continue // (a blanked v goes with the dropped argument the caller tries)
				}
				k2 := *d
				k2.Params = append([]ref.Param{}, d.Params...)
				k2.Params[i] = ref.Param{}
				splice(d.Start, d.HeadEnd, "~"+paramText(&k2)+modStr(d)+string(d.Raw))
			}
		}
		if d.CloseColon {
			splice(d.End-3, d.End, "~}")
		}
	}
	return out
}

func paramText(d *ref.Dir) string {
	parts := make([]string, len(d.Params))
	for i, p := range d.Params {
		switch p.Kind {
		case 'n':
			parts[i] = itoa(p.N)
			if p.Plus {
				parts[i] = "+" + parts[i]
			}
		case 'c':
			parts[i] = "'" + string(p.C)
		case 'v':
			parts[i] = string(p.C)
		case '#':
			parts[i] = "#"
		}
	}
	for 0 < len(parts) && parts[len(parts)-1] == "" {
		parts = parts[:len(parts)-1]
	}
	return strings.Join(parts, ",")
}

func itoa(n int) string { return big.NewInt(int64(n)).String() }

// argCandidates lists simpler argument vectors.
func argCandidates(args []ref.Val) [][]ref.Val {
	var out [][]ref.Val
	for i := range args {
		out = append(out, dropArg(args, i))
	}
	for i, a := range args {
		for _, s := range simplerVals(a, 0) {
			a2 := append([]ref.Val{}, args...)
			a2[i] = s
			out = append(out, a2)
		}
	}
	return out
}

func simplerVals(v ref.Val, depth int) []ref.Val {
	var out []ref.Val
	switch v.K {
	case "i":
		n, _ := v.Int()
		// parts of the number itself, so that the reason for the failure is kept
		abs := new(big.Int).Abs(n)
		seen := map[string]bool{v.S: true}
		add := func(x *big.Int) {
			if !seen[x.String()] {
				seen[x.String()] = true
				out = append(out, bv(x))
			}
		}
		thousand := big.NewInt(1000)
		if 0 <= abs.Cmp(thousand) {
			add(new(big.Int).Mod(abs, thousand))
			add(new(big.Int).Div(abs, thousand))
			// keep the top group, zero the rest
			top := new(big.Int).Set(abs)
			scale := big.NewInt(1)
			for 0 <= top.Cmp(thousand) {
				top.Div(top, thousand)
				scale.Mul(scale, thousand)
			}
			add(new(big.Int).Mul(top, scale))
			add(scale)
		} else if 0 <= abs.Cmp(big.NewInt(10)) {
			add(new(big.Int).Mod(abs, big.NewInt(10)))
			add(new(big.Int).Mod(abs, big.NewInt(100)))
			a := abs.Int64()
			add(big.NewInt(a - a%10))
			add(big.NewInt(a - a%100))
		}
		if n.Sign() < 0 {
			add(abs)
		}
	case "s":
		rs := []rune(v.S)
		if 1 < len(rs) {
			out = append(out, sv(string(rs[:1])), sv(string(rs[len(rs)-1:])), sv(string(rs[:len(rs)/2])), sv(string(rs[len(rs)/2:])))
		}
	case "l":
		for i := range v.L {
			out = append(out, lv(dropArg(v.L, i)...))
		}
		if depth < 2 {
			for i, e := range v.L {
				for _, s := range simplerVals(e, depth+1) {
					l2 := append([]ref.Val{}, v.L...)
					l2[i] = s
					out = append(out, lv(l2...))
				}
			}
		}
	}
	return out
}

// ---------------------------------------------------------------------------
// features of a (minimal) failing case: the constructs known to be wrong on
// the pinned tree, recognised from the control string and the arguments only.

// Characters that could not be given as a quoted prefix parameter on the pinned
// tree (repaired by 2fb00e6). Found by the probe block that tries every
// printable ASCII character.
const brokenQuoted = "$%&()*,/:<=>?@ABCDEFGIOPRSTWX[]^abcdefgioprstwx{|}~"

// a letter directly after a digit or a punctuation character: the places where
// "word" means different things to string-capitalize and to slip
var caseBoundary = regexp.MustCompile(`[^\pL\s]\pL`)

// features lists the known-broken constructs present in a failing case. The
// purely syntactic ones are read off the control string (and the control
// strings handed to ~?); the ones that depend on argument values are read off
// a trace of the oracle's own run.
func features(ctl string, args []ref.Val) []string {
	fs := map[string]bool{}
	ctls := map[string]int{ctl: 0} // control string -> block depth it runs at
	nonASCII := false
	note := func(s string) {
		for _, c := range s {
			if 127 < c {
				nonASCII = true
			}
		}
	}
	note(ctl)
	var walkVal func(v ref.Val)
	walkVal = func(v ref.Val) {
		note(v.S)
		for _, e := range v.L {
			walkVal(e)
		}
	}
	for _, a := range args {
		walkVal(a)
	}
	trace := func(d *ref.Dir, role string, i int, val ref.Val) {
		switch role {
		case "ctl":
			if val.K == "s" {
				if _, ok := ctls[val.S]; !ok {
					ctls[val.S] = 1
				}
			}
		case "list":
			if val.IsNil() {
				fs["recursive-nil-arglist"] = true
			}
		case "v-nil":
			if strings.ContainsRune("%&~*[|", d.Ch) {
				fs["v-nil-on-simple-directive"] = true
			}
		case "case":
			if d.Colon != d.At {
				seg := []rune(val.S)
				if caseBoundary.MatchString(val.S) {
					fs["case-word"] = true
				}
				if d.At && 0 < len(seg) {
					// slip takes everything up to the first space as the first word
					if !isLetter(seg[0]) {
						fs["case-word"] = true
					}
					for _, c := range seg {
						if c != ' ' && unicode.IsSpace(c) {
							fs["case-word"] = true
						}
					}
				}
			}
		case "param":
			if d.Ch == 't' && i == 0 && val.K == "" {
				fs["tab-default-colnum"] = true
			}
			if d.Ch == 't' && i == 1 && val.K == "i" {
				if val.S == "0" {
					fs["tab-colinc-0"] = true
				} else if val.S != "1" && !d.At {
					fs["tab-colinc"] = true
				}
			}
		case "arg":
			n, isInt := val.Int()
			if val.Oct && strings.ContainsRune("rp[", d.Ch) {
				fs["octet-arg"] = true
			}
			switch d.Ch {
			case 'r':
				if isInt && len(d.Params) == 0 && !d.At {
					for _, c := range englishClasses(n, d.Colon) {
						fs["english-"+c] = true
					}
				}
			case 'd', 'b', 'o', 'x':
				if !isInt {
					fs["non-integer-arg"] = true
				}
			case 'a':
				if val.K == "s" && val.S == "" {
					fs["princ-of-empty-string"] = true
				}
			case '[':
				if isInt && !n.IsInt64() {
					fs["conditional-bignum"] = true
				}
			}
		}
	}
	_, _, _ = ref.Render(ctl, args, thePrinter, ref.Opts{Trace: trace})
	for c, base := range ctls {
		syntacticFeatures(c, base, fs)
	}
	if nonASCII {
		fs["non-ascii"] = true
	}
	return sortedKeys(fs)
}

func syntacticFeatures(ctl string, base int, fs map[string]bool) {
	dirs, err := ref.Parse(ctl)
	if err != nil {
		return
	}
	rs := []rune(ctl)
	parents := map[*ref.Dir]*ref.Dir{}
	allDirs(dirs, func(d *ref.Dir, depth int, parent *ref.Dir) { parents[d] = parent }, 0, nil)
	allDirs(dirs, func(d *ref.Dir, depth int, parent *ref.Dir) {
		if d.Ch == 0 {
			return
		}
		depth += base
		for _, p := range d.Params {
			if p.Kind == 'c' && strings.ContainsRune(brokenQuoted, p.C) {
				fs["quoted-param-char"] = true
			}
			if p.Kind == 'v' && p.C == 'V' {
				fs["upper-case-V"] = true
			}
			if p.Kind == 'n' && p.Plus {
				fs["plus-sign-param"] = true
			}
		}
		switch d.Ch {
		case '^':
			fs["caret"] = true
		case 'r':
			if 0 < len(d.Params) {
				fs["radix-R"] = true
			}
		case 't':
			if 0 < depth {
				fs["tab-in-block"] = true
			}
		case '&':
			if 0 < depth {
				fs["fresh-line-in-block"] = true
			}
		case '~':
			if 0 < len(d.Params) && parent != nil {
				fs["tilde-with-param-in-block"] = true
			}
		}
		// block scanning: the scanner of an enclosing block of the same type
		if 0 < len(d.Clauses) {
			same := false
			for p := parents[d]; p != nil; p = parents[p] {
				if p.Ch == d.Ch {
					same = true
				}
			}
			if same {
				if 0 < len(d.Params) {
					fs["nested-same-block-with-param"] = true
				}
				if d.CloseColon {
					fs["nested-iteration-closed-by-colon"] = true
				}
				if d.End < len(rs) && (rs[d.End] == '~' || strings.ContainsRune(":@;[]{}()", rs[d.End])) {
					fs["nested-same-block-then-directive"] = true
				}
			}
		}
		if d.Ch == '[' {
			for i := 1; i < len(d.ClauseSpan); i++ {
				st := d.ClauseSpan[i][0]
				if st < len(rs) && (rs[st] == '~' || strings.ContainsRune(":@;[]", rs[st])) {
					fs["clause-separator-then-directive"] = true
				}
			}
		}
	}, 0, nil)
}

func isLetter(c rune) bool { return ('a' <= c && c <= 'z') || ('A' <= c && c <= 'Z') }

// englishClasses names the classes of numbers slip's speller is known to get
// wrong (see findings).
func englishClasses(n *big.Int, ordinal bool) []string {
	var cs []string
	a := new(big.Int).Abs(n)
	if 0 <= a.Cmp(ref.EnglishLimit) {
		return nil
	}
	thousand := big.NewInt(1000)
	if 0 <= a.Cmp(thousand) && new(big.Int).Mod(a, thousand).Sign() == 0 {
		cs = append(cs, "lowest-group-000")
	}
	round := false
	first := true
	for x := new(big.Int).Set(a); 0 < x.Sign(); x.Div(x, thousand) {
		grp := new(big.Int).Mod(x, thousand).Int64()
		if 20 <= grp%100 && grp%10 == 0 {
			round = true
		}
		if first && ordinal && grp != 0 && grp%100 == 0 {
			cs = append(cs, "ordinal-hundred")
		}
		first = false
	}
	if round {
		cs = append(cs, "round-tens")
	}
	return cs
}

// shape abstracts a control string: literal text becomes _, numbers n,
// quoted characters 'c.
func shape(ctl string, args []ref.Val) string {
	dirs, err := ref.Parse(ctl)
	if err != nil {
		return "unparsed"
	}
	var b strings.Builder
	var w func(ds []*ref.Dir)
	head := func(d *ref.Dir) {
		b.WriteByte('~')
		for i, p := range d.Params {
			if 0 < i {
				b.WriteByte(',')
			}
			switch p.Kind {
			case 'n':
				if p.Plus {
					b.WriteByte('+')
				}
				b.WriteByte('n')
			case 'c':
				b.WriteString("'c")
			case 'v':
				b.WriteByte('v')
			case '#':
				b.WriteByte('#')
			}
		}
		b.WriteString(modStr(d))
		b.WriteRune(d.Ch)
	}
	w = func(ds []*ref.Dir) {
		for _, d := range ds {
			if d.Ch == 0 {
				b.WriteByte('_')
				continue
			}
			head(d)
			for i, cl := range d.Clauses {
				if 0 < i {
					if d.Default && i == len(d.Clauses)-1 {
						b.WriteString("~:;")
					} else {
						b.WriteString("~;")
					}
				}
				w(cl)
			}
			switch d.Ch {
			case '(':
				b.WriteString("~)")
			case '[':
				b.WriteString("~]")
			case '{':
				if d.CloseColon {
					b.WriteString("~:}")
				} else {
					b.WriteString("~}")
				}
			}
		}
	}
	w(dirs)
	b.WriteString(" args=")
	for _, a := range args {
		switch a.K {
		case "i":
			n, _ := a.Int()
			if a.Oct {
				b.WriteByte('b')
			} else if n.IsInt64() {
				b.WriteByte('i')
			} else {
				b.WriteByte('I')
			}
		case "l":
			if len(a.L) == 0 {
				b.WriteByte('n')
			} else {
				b.WriteByte('l')
			}
		default:
			b.WriteString(a.K)
		}
	}
	return b.String()
}

// refine drops a feature that cannot explain what was observed: the
// 'quantillion' misspelling explains a mismatch only if correcting the
// spelling in slip's text gives the expected text. Everything from 10^18 up
// carries that finding, so without this the range 10^18..10^66 would be blind.
func refine(fs []string, v verdict) []string {
	var out []string
	for _, f := range fs {
		if f == "english-quintillion" {
			ok := false
			if v.got.err == nil {
				fixed := strings.ReplaceAll(v.got.text, "quantillion", "quintillion")
				for _, w := range v.want {
					if w == fixed {
						ok = true
					}
				}
			}
			if !ok {
				continue
			}
		}
		out = append(out, f)
	}
	return out
}

// repairedConstructs were broken on the pinned tree and have been repaired in
// /repo since (findings with status "fixed: ..."); they are back in the clean
// stream and explain nothing any more.
var repairedConstructs = map[string]bool{
	"nested-same-block-then-directive": true, "nested-same-block-with-param": true, "nested-iteration-closed-by-colon": true,
	"clause-separator-then-directive": true, "tilde-with-param-in-block": true, "english-quintillion": true,
	"princ-of-empty-string": true, "tab-colinc-0": true,
	// round 3
	"quoted-param-char": true, "upper-case-V": true, "plus-sign-param": true, "v-nil-on-simple-directive": true, "radix-R": true,
	"recursive-nil-arglist": true, "conditional-bignum": true, "octet-arg": true, "non-integer-arg": true,
	"english-lowest-group-000": true, "english-round-tens": true, "english-ordinal-hundred": true,
}

var openSet map[string]bool

// openConstruct tells whether the construct is listed as an open finding. The
// file is read once per worker; it is regenerated by scripts/merge_findings.py
// and may be caught half written, so an unreadable or C15-less file is retried
// and finally replaced by the built-in list.
func openConstruct(f string) bool {
	if openSet == nil {
		root := os.Getenv("VERIF_ROOT")
		if root == "" {
			root = "."
		}
		for try := 0; try < 20 && openSet == nil; try++ {
			set := map[string]bool{}
			for _, fd := range fw.LoadFindings(root+"/known_findings.json", "C15") {
				if fd.Open() {
					set[fd.Signature] = true
				}
			}
			if 0 < len(set) {
				openSet = set
			} else {
				time.Sleep(150 * time.Millisecond)
			}
		}
		if openSet == nil {
			openSet = map[string]bool{}
			for _, p := range featurePriority {
				if !repairedConstructs[p] {
					openSet["known-construct="+p] = true
				}
			}
		}
	}
	return openSet["known-construct="+f]
}

// emitting: candidate findings are being collected (VERIF_EMIT), so every
// recognised construct names its signature whether listed yet or not.
var emitting = os.Getenv("VERIF_EMIT") != ""

var featurePriority = []string{
	"quoted-param-char", "upper-case-V", "plus-sign-param", "nested-same-block-with-param", "nested-iteration-closed-by-colon",
	"nested-same-block-then-directive", "clause-separator-then-directive", "tilde-with-param-in-block", "caret", "radix-R",
	"v-nil-on-simple-directive", "recursive-nil-arglist", "conditional-bignum", "tab-colinc-0", "tab-colinc",
	"tab-default-colnum", "tab-in-block", "fresh-line-in-block", "english-lowest-group-000", "english-quintillion",
	"english-round-tens", "english-ordinal-hundred", "octet-arg", "non-integer-arg", "princ-of-empty-string", "case-word", "non-ascii",
}

func signature(ctl string, args []ref.Val, v verdict) string {
	kind := v.kind
	if kind == "" || kind == "unjudged" {
		kind = "unstable"
	}
	if fs := refine(features(ctl, args), v); 0 < len(fs) {
		// the construct is the signature; when several are present the one
		// that breaks earliest (scanning before rendering) names it. Only
		// constructs that are still listed as open findings count: once a
		// finding is repaired and dropped, its construct explains nothing and
		// the failure is booked on the next one, or reported by its shape.
		for _, p := range featurePriority {
			for _, f := range fs {
				if f == p && (emitting || openConstruct(f)) {
					return "known-construct=" + f
				}
			}
		}
	}
	return "fail=" + kind + " shape=" + shape(ctl, args)
}
