package c15

import (
	"fmt"
	"math/big"
	"strings"

	"github.com/ohler55/slip"

	"verif/internal/c15/ref"
	"verif/internal/fw"
	"verif/internal/sl"
)

// Seed-independent blocks added in round 3: printer variables bound around the
// call, boundary sizes, and the monitors for the other routes into the
// directive interpreter and for histories on one stream.

var extraCases []Case

// printer variables that princ / prin1 (and so ~A / ~S) obey; the integer
// directives, ~R, ~C and ~P must not be moved by them.
var bindings = []string{
	"(*print-base* 2)", "(*print-base* 8)", "(*print-base* 16)", "(*print-base* 36)",
	"(*print-radix* t)", "(*print-base* 16) (*print-radix* t)", "(*print-base* 8) (*print-radix* t)",
	"(*print-case* :downcase)", "(*print-case* :upcase)", "(*print-case* :capitalize)",
	"(*print-escape* nil)", "(*print-escape* t)", "(*print-readably* nil)",
	"(*print-length* 0)", "(*print-length* 1)", "(*print-length* 2)", "(*print-level* 0)", "(*print-level* 1)", "(*print-level* 2)",
	"(*print-length* 2) (*print-level* 1)", "(*print-array* nil)", "(*print-base* 2) (*print-case* :downcase) (*print-length* 3)",
}

func buildExtra() {
	add := func(blk, bind, ctl string, args ...ref.Val) {
		extraCases = append(extraCases, Case{Blk: blk, Ctl: ctl, Args: args, Bind: bind})
	}
	ints := func(ns ...int64) []ref.Val {
		out := make([]ref.Val, len(ns))
		for i, n := range ns {
			out[i] = iv(n)
		}
		return out
	}

	// 1. printer variables x object kinds x the forms of ~A / ~S (bare, padded,
	// with modifiers, inside each block kind and ~?), and the directives that
	// must stay as they are
	objs := []ref.Val{iv(255), iv(-255), iv(0), bv(pow(2, 70)), sv("Str ing"), cv('a'), cv(' '), yv("foo"), yv(":key"), nilv(),
		lv(iv(10), sv("a"), cv('b'), yv("foo")), lv(iv(1), lv(iv(2), lv(iv(3), lv(iv(4))))), lv(ints(1, 2, 3, 4, 5)...)}
	for _, src := range objectSources {
		objs = append(objs, ov(src))
	}
	for _, b := range bindings {
		for _, o := range objs {
			add("bind", b, "~a|~s", o, o)
			add("bind", b, "~12a|~12@s|~:a|~:@s", o, o, o, o)
			add("bind", b, "~{~a ~s~}|~(~a~)|~@[~s~]", lv(o, o), o, o)
			add("bind", b, "~?|~@?", sv("~a~s"), lv(o, o), sv("~3,2s"), o)
			add("bind", b, "~v,v,v,va|~#s", iv(9), iv(2), iv(1), cv('.'), o, o)
		}
		for _, n := range []ref.Val{iv(255), iv(-255), iv(0), bv(pow(2, 70)), bv(new(big.Int).Neg(pow(10, 20)))} {
			add("bind", b, "~d|~b|~o|~x", n, n, n, n)
			add("bind", b, "~:d|~@d|~12,'0x|~,,'.,4:b", n, n, n, n)
			add("bind", b, "~a ~d ~s ~x ~a", n, n, n, n, n)
			add("bind", b, "~{~d ~a ~}|~[~d~;~a~]", lv(n, n, n, n), iv(0), n)
		}
		add("bind", b, "~r|~:r|~@r|~:@r", iv(1234), iv(21), iv(1999), iv(4))
		add("bind", b, "~c|~:c|~@c|~p|~@p|~d thing~:p", cv('a'), cv(' '), cv('x'), iv(1), iv(2), iv(16))
		add("bind", b, "~5t|~2%~&~3~~*~a~[a~;b~]~16{~a~}", iv(0), iv(16), iv(1), lv(ints(16, 17)...))
		add("bind", b, "~(~a ~s~) ~:(~a~) ~:@(~s~)", yv("foo"), sv("Bar"), yv("baz-qux"), yv("car"))
	}

	// 2. boundary sizes. slip fills columns from a block of 80 spaces, pads one
	// character at a time and builds the text in one buffer: around 80 and 160
	// columns, powers of two up to 64 Ki, long literal text, long arguments,
	// many arguments, many clauses, deep nesting, very large integers
	for _, l := range []int{0, 3, 79, 80, 81} {
		pre := strings.Repeat("x", l)
		for _, col := range []int{0, 1, 78, 79, 80, 81, 82, 159, 160, 161, 162, 240, 241} {
			add("boundary", "", pre+fmt.Sprintf("~%dt|", col))
			add("boundary", "", pre+fmt.Sprintf("~%d,1t|", col))
			add("boundary", "", pre+fmt.Sprintf("~%d@t|", col))
			add("boundary", "", pre+fmt.Sprintf("~%d,8@t|", col))
			add("boundary", "", pre+"~vt|", iv(int64(col)))
			add("boundary", "", pre+"~v,v@t|", iv(int64(col)), iv(80))
		}
	}
	sizes := []int{79, 80, 81, 255, 256, 257, 1023, 1024, 1025, 4095, 4096, 4097, 65535, 65536, 65537}
	for _, n := range sizes {
		add("boundary", "", fmt.Sprintf("~%da|", n), sv("ab"))
		add("boundary", "", fmt.Sprintf("~%d@a|", n), sv("ab"))
		add("boundary", "", fmt.Sprintf("~%d,1,0,'.s|", n), sv("ab"))
		add("boundary", "", fmt.Sprintf("~%d,7a|", n), sv("ab"))
		add("boundary", "", fmt.Sprintf("~,,%da|", n), sv("ab"))
		add("boundary", "", fmt.Sprintf("~%dd|", n), iv(-42))
		add("boundary", "", fmt.Sprintf("~%d,'0:x|", n), iv(65535))
		add("boundary", "", "~vb|~a", iv(int64(n)), iv(5), iv(6))
		add("boundary", "", "~v,va|", iv(int64(n)), iv(int64(n)), sv("q"))
		if n <= 4097 {
			add("boundary", "", fmt.Sprintf("a~%d%%b", n))
			add("boundary", "", fmt.Sprintf("a~%d&b", n))
			add("boundary", "", fmt.Sprintf("a~%d~b", n))
			add("boundary", "", "~v%~v~", iv(int64(n)), iv(int64(n)))
		}
		// literal text and arguments of that length, a directive right at the edge
		add("boundary", "", strings.Repeat("z", n)+"~a", iv(7))
		add("boundary", "", strings.Repeat("z", n-1)+"~a"+strings.Repeat("y", n), iv(7))
		add("boundary", "", "~a|~s", sv(strings.Repeat("k", n)), sv(strings.Repeat("k", n)))
		add("boundary", "", fmt.Sprintf("~%da|~%d@a|", n+1, n-1), sv(strings.Repeat("k", n)), sv(strings.Repeat("k", n)))
		add("boundary", "", "~(~a~)|~:@(~a~)", sv(strings.Repeat("Kk", n/2)), sv(strings.Repeat("kK ", n/3)))
	}
	for _, n := range []int{0, 1, 2, 63, 64, 65, 255, 256, 257, 1000} {
		el := make([]ref.Val, n)
		subs := make([]ref.Val, n)
		for i := range el {
			el[i] = iv(int64(i))
			subs[i] = lv(iv(int64(i)), sv("s"))
		}
		add("boundary", "", "~{~a,~}|~a", lv(el...), iv(99))
		add("boundary", "", "~:{~a~a;~}|~a", lv(subs...), iv(99))
		add("boundary", "", "~@{~a,~}|", el...)
		add("boundary", "", "~:@{~a~a;~}|", subs...)
		add("boundary", "", fmt.Sprintf("~%d{~a,~}|~%d@{~a,~}~@{~*~}", n, max(n-1, 0)), append([]ref.Val{lv(el...)}, el...)...)
		add("boundary", "", "~#{~a,~}|~#[none~;one~:;~a~]", lv(el...), iv(5), iv(6))
		if 0 < n {
			add("boundary", "", fmt.Sprintf("~%d@*~a|~%d:*~a|~@*~%d*~a", n-1, 1, n-1), el...)
			add("boundary", "", "~v@*~a|~#*", append([]ref.Val{iv(int64(n))}, el...)...)
			var cl []string
			for i := 0; i < n; i++ {
				cl = append(cl, fmt.Sprintf("c%d", i))
			}
			ctl := "~[" + strings.Join(cl, "~;") + "~:;dflt~]|"
			for _, sel := range []int{0, n / 2, n - 1, n, n + 1} {
				add("boundary", "", ctl, iv(int64(sel)))
				add("boundary", "", strings.Replace(ctl, "~[", fmt.Sprintf("~%d[", sel), 1))
			}
		}
	}
	for depth := 1; depth <= 12; depth++ {
		// alternating ~{ ~( ~[ ~@[ around one ~a
		open, close := "", ""
		arg := ref.Val(sv("Core"))
		var pre []ref.Val
		for d := 0; d < depth; d++ {
			switch d % 4 {
			case 0:
				open, close = "~{"+open, close+".~}"
				arg = lv(append(pre, arg)...)
				pre = nil
			case 1:
				open, close = "~:("+open, close+"~)"
			case 2:
				open, close = "~[no~;"+open, close+"~;k~]"
				pre = []ref.Val{iv(1)}
			default:
				open, close = "~@[~*"+open, close+"~]"
				pre = append([]ref.Val{iv(5)}, pre...)
			}
		}
		add("boundary", "", open+"~a"+close+"|~a", append(append(pre, arg), iv(99))...)
		// the same block kind nested depth times
		add("boundary", "", strings.Repeat("~(", depth)+"~a"+strings.Repeat("~)", depth), sv("MiXed"))
		l := ref.Val(iv(3))
		for d := 0; d < depth; d++ {
			l = lv(l, l)
		}
		if depth <= 8 {
			add("boundary", "", strings.Repeat("~{", depth)+"~a"+strings.Repeat("~}", depth), l)
		}
		ones := make([]int64, depth)
		for i := range ones {
			ones[i] = 1
		}
		add("boundary", "", strings.Repeat("~[x~;", depth)+"in"+strings.Repeat("~]", depth), ints(ones...)...)
		ctl := "~?"
		a := []ref.Val{sv("<~a>"), lv(iv(1))}
		for d := 1; d < depth; d++ {
			a = []ref.Val{sv("(~?)"), lv(a...)}
		}
		add("boundary", "", ctl+"|", a...)
	}
	for _, bits := range []int64{62, 63, 64, 65, 127, 128, 129, 1000, 4096} {
		for _, n := range []*big.Int{pow(2, bits), addi(pow(2, bits), -1), new(big.Int).Neg(pow(2, bits)), new(big.Int).Neg(addi(pow(2, bits), 1))} {
			add("boundary", "", "~d|~b|~o|~x", bv(n), bv(n), bv(n), bv(n))
			add("boundary", "", "~:d|~,,'.,1:x|~,,,64:b|~@o", bv(n), bv(n), bv(n), bv(n))
			add("boundary", "", "~1300,'_:@d|~a|~s", bv(n), bv(n), bv(n))
		}
	}

	// 3. characters with names, the plural of things that are not the integer 1
	for _, c := range []rune{'\f', '\r', 0x7f, '\b', '\t', '\n', ' '} {
		for _, m := range []string{"", ":", "@", ":@"} {
			add("probe", "", "<~"+m+"c>", cv(c))
		}
	}
	for _, o := range []ref.Val{ov("1.0"), ov("1.0d0"), ov("0.5"), ov("3/2"), iv(1), iv(-1), iv(0), bv(pow(2, 64)), sv("1"), cv('1'), lv(iv(1)), nilv(), yv("one")} {
		add("probe", "", "~p|~@p|~a~:p|~s~:@p", o, o, o, o)
		add("probe", "", "~{~a~:p ~}", lv(o, o))
	}

	// 3b. octets (slip: "an unsigned 8bit integer", integerp and eql to the
	// fixnum of the same value) as arguments and as v parameters of every directive
	for _, n := range []int64{0, 1, 2, 3, 10, 21, 100, 255} {
		o := octv(n)
		add("probe", "", "~d|~b|~o|~x|~:d|~@d|~5,'0d|~:@x", o, o, o, o, o, o, o, o)
		add("probe", "", "~a|~s|~6a|~6@s|~:a", o, o, o, o, o)
		add("probe", "", "~r", o)
		add("probe", "", "~:r", o)
		add("probe", "", "~@r|~:@r", o, o)
		add("probe", "", "~p|~@p", o, o)
		add("probe", "", "~d thing~:p", o)
		add("probe", "", "~[zero~;one~;two~;three~:;many~]", o)
		add("probe", "", "~:[f~;t~]|~@[~a~]", o, o)
		add("probe", "", "~{~a~}|~{~d~^,~}", lv(o, o), lv(o))
		add("probe", "", "~vd|~v,'.a|~v%|~v~|", o, iv(5), o, sv("x"), o, o)
		add("probe", "", "~v*~a", o, iv(1), iv(2), iv(3), iv(4), iv(5), iv(6), iv(7), iv(8), iv(9), iv(10), iv(11))
		add("probe", "", "~v[zero~;one~;two~;three~:;many~]|~v{~a~}", o, o, lv(ints(1, 2, 3)...))
		add("probe", "", "ab~vt|~v,1t|", o, o)
		add("probe", "", "~,,,v:d|~,v,va|", octv(n%4+1), iv(1234567), o, o, sv("x"))
	}

	// 4. integer parameters written with a sign (CLHS 22.3: "signed (sign is
	// optional) decimal numbers")
	add("probe", "", "~+5d|", iv(3))
	add("probe", "", "~+5,'0d|~+2%~+3a|", iv(3), sv("x"))
	add("probe", "", "~+1*~a|~+0[a~;b~]|~+2{~a~}", iv(1), iv(2), lv(ints(1, 2, 3)...))
	add("probe", "", "~a~+1:*~a|~+0@*~a", iv(1))
	add("probe", "", "ab~+5,+1t|", iv(3))
	add("probe", "", "~,,,+2:d|~,,+1a|", iv(12345), sv("x"))
	add("probe", "", "~(~+3d~)|~[~+3d~]|~{~+3d~}", iv(1), iv(0), iv(2), lv(iv(3)))
}

// ---------------------------------------------------------------------------
// other routes into the directive interpreter: error and invalid-method-error
// are documented to build their message from a format control and arguments.

func runRoute(route, ctl string, args []ref.Val) *sl.Err {
	scope := slip.NewScope()
	scope.Let(slip.Symbol("c15-ctl"), slip.String(ctl))
	var call strings.Builder
	switch route {
	case "error":
		call.WriteString("(error c15-ctl")
	default:
		call.WriteString("(invalid-method-error :c15 c15-ctl")
	}
	for i, a := range args {
		name := fmt.Sprintf("c15-a%d", i)
		scope.Let(slip.Symbol(name), toObj(a))
		call.WriteString(" " + name)
	}
	call.WriteString(")")
	_, err := sl.Eval(scope, withBind(call.String()))
	return err
}

func checkRoutes(x *fw.Ctx, c Case, text string) {
	for _, route := range []string{"error", "invalid-method-error"} {
		err := runRoute(route, c.Ctl, c.Args)
		switch {
		case err == nil:
			x.Fail("fail=route-no-condition route="+route, "(%s %q %s) returned instead of raising a condition", route, c.Ctl, showArgs(c.Args))
		case err.Internal:
			x.Fail("fail=route-internal route="+route, "(%s %q %s) => %s but (format nil ...) => %q", route, c.Ctl, showArgs(c.Args), err, text)
		case !err.IsA(route):
			x.Fail("fail=route-condition-class route="+route, "(%s %q %s) raised %s, not a condition of class %s", route, c.Ctl, showArgs(c.Args), err, route)
		case err.Msg != text:
			x.Fail("fail=route-text route="+route, "(%s %q %s) carries the message %q but (format nil ...) => %q", route, c.Ctl, showArgs(c.Args), err.Msg, text)
		default:
			x.Cover("agree:route-" + route)
		}
	}
}

// columnFree tells whether the text of the control string cannot depend on
// what the destination already holds (no ~& ~T, no ~? whose control strings
// are arguments).
func columnFree(dirs []*ref.Dir) bool {
	ok := true
	allDirs(dirs, func(d *ref.Dir, _ int, _ *ref.Dir) {
		if d.Ch == 't' || d.Ch == '&' || d.Ch == '?' {
			ok = false
		}
	}, 0, nil)
	return ok
}

// checkHistory: the same call twice onto one stream with a failing call in
// between leaves the text twice; every call returns nil or raises.
func checkHistory(x *fw.Ctx, c Case, text string, variant int) {
	scope := slip.NewScope()
	scope.Let(slip.Symbol("c15-ctl"), slip.String(c.Ctl))
	var call strings.Builder
	call.WriteString("(format c15-s c15-ctl")
	for i, a := range c.Args {
		name := fmt.Sprintf("c15-a%d", i)
		scope.Let(slip.Symbol(name), toObj(a))
		call.WriteString(" " + name)
	}
	call.WriteString(")")
	// a call that fails before it can have written anything, or one that fails
	// two blocks deep after some text
	bad, exact := `(format c15-s "~a")`, true
	if variant%2 == 1 {
		bad, exact = `(format c15-s "<~{~(~a~a~)~}>" '(1))`, false
	}
	src := "(let ((c15-s (make-string-output-stream))) (list " + withBind(call.String()) + " (car (multiple-value-list (ignore-errors " + bad + "))) " +
		withBind(call.String()) + " (get-output-stream-string c15-s)))"
	res, err := sl.Eval(scope, src)
	name := map[bool]string{true: "failed-before-output", false: "failed-inside-blocks"}[exact]
	if err != nil {
		k := "error"
		if err.Internal {
			k = "internal"
		}
		x.Fail("fail=history-"+k+" between="+name, "two calls of (format s %q %s) with a failing call between them => %s", c.Ctl, showArgs(c.Args), err)
		return
	}
	l, ok := res.(slip.List)
	if !ok || len(l) != 4 {
		x.Fail("fail=history-shape", "unexpected result %s", sl.Show(res))
		return
	}
	s, _ := l[3].(slip.String)
	got := string(s)
	good := got == text+text
	if !exact {
		// what a failing call leaves on the stream is not specified
		good = strings.HasPrefix(got, text) && strings.HasSuffix(got, text) && 2*len(text) <= len(got)
	}
	switch {
	case sl.Show(l[0]) != "nil" || sl.Show(l[2]) != "nil" || sl.Show(l[1]) != "nil":
		x.Fail("fail=history-retval between="+name, "format onto a stream returned %s, %s (failing call), %s", sl.Show(l[0]), sl.Show(l[1]), sl.Show(l[2]))
	case !good:
		x.Fail("fail=history-text between="+name, "two calls of (format s %q %s) with a failing call between them left %q on the stream, one call gives %q", c.Ctl, showArgs(c.Args), got, text)
	default:
		x.Cover("agree:history-" + name)
	}
}
