package ref

import (
	"math/big"
	"strings"
)

var small = []string{"zero", "one", "two", "three", "four", "five", "six", "seven", "eight", "nine", "ten",
	"eleven", "twelve", "thirteen", "fourteen", "fifteen", "sixteen", "seventeen", "eighteen", "nineteen"}

var tensWord = []string{"", "", "twenty", "thirty", "forty", "fifty", "sixty", "seventy", "eighty", "ninety"}

// Scales are the short-scale names of the powers of 1000.
var Scales = []string{"", "thousand", "million", "billion", "trillion", "quadrillion", "quintillion", "sextillion",
	"septillion", "octillion", "nonillion", "decillion", "undecillion", "duodecillion", "tredecillion",
	"quattuordecillion", "quindecillion", "sexdecillion", "septendecillion", "octodecillion", "novemdecillion",
	"vigintillion"}

var irregular = map[string]string{"one": "first", "two": "second", "three": "third", "five": "fifth", "eight": "eighth",
	"nine": "ninth", "twelve": "twelfth"}

func ordinalWord(w string) string {
	if o, ok := irregular[w]; ok {
		return o
	}
	if strings.HasSuffix(w, "y") {
		return w[:len(w)-1] + "ieth"
	}
	return w + "th"
}

// below1000 gives the words of 1..999; a tens-units pair is one element
// holding a hyphen.
func below1000(n int) []string {
	var w []string
	if 100 <= n {
		w = append(w, small[n/100], "hundred")
		n %= 100
	}
	switch {
	case n == 0:
	case n < 20:
		w = append(w, small[n])
	case n%10 == 0:
		w = append(w, tensWord[n/10])
	default:
		w = append(w, tensWord[n/10]+"-"+small[n%10])
	}
	return w
}

// EnglishLimit is 10^66: the first number without a name in Scales.
var EnglishLimit = new(big.Int).Exp(big.NewInt(10), big.NewInt(66), nil)

func (st *state) english(n *big.Int, ordinal bool) string {
	abs := new(big.Int).Abs(n)
	if 0 <= abs.Cmp(EnglishLimit) {
		fail("range", "no English name at or above 10^66")
	}
	var words []string
	if abs.Sign() == 0 {
		words = []string{"zero"}
	} else {
		var groups []int
		thousand := big.NewInt(1000)
		q := new(big.Int).Set(abs)
		for 0 < q.Sign() {
			m := new(big.Int)
			q.DivMod(q, thousand, m)
			groups = append(groups, int(m.Int64()))
		}
		for i := len(groups) - 1; 0 <= i; i-- {
			if groups[i] == 0 {
				continue
			}
			words = append(words, below1000(groups[i])...)
			if 0 < i {
				words = append(words, Scales[i])
			}
		}
	}
	if ordinal {
		last := words[len(words)-1]
		if k := strings.LastIndexByte(last, '-'); 0 <= k {
			last = last[:k+1] + ordinalWord(last[k+1:])
		} else {
			last = ordinalWord(last)
		}
		words[len(words)-1] = last
	}
	txt := strings.Join(words, " ")
	if strings.Contains(txt, "-") {
		st.used.Hyphen = true
		if st.o.SpaceHyphen {
			txt = strings.ReplaceAll(txt, "-", " ")
		}
	}
	if n.Sign() < 0 {
		st.used.Neg = true
		if st.o.Negative {
			txt = "negative " + txt
		} else {
			txt = "minus " + txt
		}
	}
	return txt
}

// Roman renders 1..3999; old selects the additive style (IIII, VIIII).
func Roman(n *big.Int, old bool) string {
	if !n.IsInt64() || n.Int64() < 1 || 3999 < n.Int64() {
		fail("range", "Roman numerals are defined for 1..3999")
	}
	v := int(n.Int64())
	type sym struct {
		val int
		s   string
	}
	syms := []sym{{1000, "M"}, {900, "CM"}, {500, "D"}, {400, "CD"}, {100, "C"}, {90, "XC"}, {50, "L"}, {40, "XL"},
		{10, "X"}, {9, "IX"}, {5, "V"}, {4, "IV"}, {1, "I"}}
	var b strings.Builder
	for _, s := range syms {
		if old && len(s.s) == 2 {
			continue
		}
		for s.val <= v {
			b.WriteString(s.s)
			v -= s.val
		}
	}
	return b.String()
}
