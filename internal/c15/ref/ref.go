// Package ref is an independent renderer of format control strings, written
// from the Common Lisp definition of the directives (CLHS 22.3) and the text
// of slip's FuncDoc for format. It does not import slip. The aesthetic and
// standard renderings of an object (~A, ~S) are obtained from a callback so
// that the harness can tie them to princ-to-string / prin1-to-string of the
// same object.
package ref

import (
	"fmt"
	"math/big"
	"strings"
	"unicode"
)

// Val is a format argument. K: i integer (S decimal), s string, c character
// (S holds the one rune), y symbol (S the name), l list (L; empty = nil),
// o any other object (S is its source text; opaque to the renderer).
type Val struct {
	K string `json:"k"`
	S string `json:"s,omitempty"`
	L []Val  `json:"l,omitempty"`
	// Oct: an integer in 0..255 handed over as slip's octet (an integer type of
	// the dialect); to the renderer it is the integer.
	Oct bool `json:"oct,omitempty"`
}

// IsNil tells whether v is the empty list.
func (v Val) IsNil() bool { return v.K == "l" && len(v.L) == 0 }

// Int returns the integer value of an "i" Val.
func (v Val) Int() (*big.Int, bool) {
	if v.K != "i" {
		return nil, false
	}
	return new(big.Int).SetString(v.S, 10)
}

// Printer supplies the princ and prin1 text of a value.
type Printer interface {
	Princ(v Val) string
	Prin1(v Val) string
}

// Opts selects between readings where the definition leaves room.
type Opts struct {
	FreshAtStart bool // ~& when nothing has been output yet emits a newline
	TabStopStay  bool // ~T with the cursor exactly at colnum outputs nothing
	SpaceHyphen  bool // "twenty one" instead of "twenty-one"
	Negative     bool // "negative" instead of "minus"
	// BaseBound: the caller has bound *print-base* or *print-radix*. A
	// non-integer given to ~D ~B ~O ~X is then not judged: slip's text says
	// "the Aesthetic directive is used", CLHS says ~A format in the radix of
	// the directive, and the two differ for integers inside the argument.
	BaseBound bool
	// Trace, when set, is told which value each executed directive used:
	// role "arg" (the argument), "param" (resolved prefix parameter i; K ""
	// when omitted or nil), "v-nil" (a v parameter that was given nil),
	// "ctl" / "list" (the two arguments of ~?).
	Trace func(d *Dir, role string, i int, v Val)
}

// Used reports which options were consulted.
type Used struct{ Fresh, TabStop, Hyphen, Neg bool }

// Error is a reason for not giving a text. Every kind means: the definition
// makes this an error or leaves it undefined; the oracle gives no verdict.
type Error struct {
	Kind string // syntax args type param range unspec budget
	Msg  string
}

func (e *Error) Error() string { return e.Kind + ": " + e.Msg }

func fail(kind, f string, a ...any) { panic(&Error{Kind: kind, Msg: fmt.Sprintf(f, a...)}) }

// Param is one prefix parameter.
type Param struct {
	Kind byte // 'n' integer, 'c' character, 'v', '#', 0 omitted
	N    int
	C    rune
	Plus bool // an integer written with an explicit + sign
}

// Dir is a literal run (Ch == 0) or a directive.
type Dir struct {
	Text       string
	Ch         rune // lower-cased directive character
	Raw        rune
	Colon, At  bool
	Params     []Param
	Clauses    [][]*Dir
	ClauseSpan [][2]int // rune spans of the clause bodies
	Default    bool     // ~[: last clause follows ~:;
	CloseColon bool     // ~{ closed by ~:}
	Start, End int      // rune span in the control string (blocks: through the closing directive)
	HeadEnd    int      // end of the opening directive
}

type parser struct {
	s   []rune
	pos int
}

// Parse parses a control string.
func Parse(ctl string) (dirs []*Dir, err error) {
	defer func() {
		if r := recover(); r != nil {
			if e, ok := r.(*Error); ok {
				err = e
				return
			}
			panic(r)
		}
	}()
	p := &parser{s: []rune(ctl)}
	dirs, term := p.seq()
	if term != nil {
		fail("syntax", "unmatched ~%c", term.Raw)
	}
	return dirs, nil
}

// seq parses until a closing/separator directive, which is returned.
func (p *parser) seq() ([]*Dir, *Dir) {
	var out []*Dir
	for p.pos < len(p.s) {
		if p.s[p.pos] != '~' {
			st := p.pos
			for p.pos < len(p.s) && p.s[p.pos] != '~' {
				p.pos++
			}
			out = append(out, &Dir{Text: string(p.s[st:p.pos]), Start: st, End: p.pos})
			continue
		}
		d := p.directive()
		switch d.Ch {
		case ')', ']', '}', ';':
			return out, d
		case '(':
			st := p.pos
			body, term := p.seq()
			if term == nil || term.Ch != ')' {
				fail("syntax", "~( not closed by ~)")
			}
			if term.Colon || term.At || 0 < len(term.Params) {
				fail("unspec", "modifiers on ~)")
			}
			d.Clauses = [][]*Dir{body}
			d.ClauseSpan = [][2]int{{st, term.Start}}
			d.End = term.End
		case '{':
			st := p.pos
			body, term := p.seq()
			if term == nil || term.Ch != '}' {
				fail("syntax", "~{ not closed by ~}")
			}
			if term.At || 0 < len(term.Params) {
				fail("unspec", "modifiers on ~}")
			}
			d.CloseColon = term.Colon
			d.Clauses = [][]*Dir{body}
			d.ClauseSpan = [][2]int{{st, term.Start}}
			d.End = term.End
		case '[':
			for {
				st := p.pos
				body, term := p.seq()
				if term == nil || (term.Ch != ']' && term.Ch != ';') {
					fail("syntax", "~[ not closed by ~]")
				}
				if d.Default {
					// a clause after the default clause
					if term.Ch == ';' {
						fail("unspec", "~; after the ~:; clause")
					}
				}
				d.Clauses = append(d.Clauses, body)
				d.ClauseSpan = append(d.ClauseSpan, [2]int{st, term.Start})
				if term.At || 0 < len(term.Params) {
					fail("unspec", "parameters on ~; or ~]")
				}
				if term.Ch == ']' {
					if term.Colon {
						fail("unspec", "~:]")
					}
					d.End = term.End
					break
				}
				if term.Colon {
					d.Default = true
				}
			}
		}
		out = append(out, d)
	}
	return out, nil
}

func (p *parser) directive() *Dir {
	d := &Dir{Start: p.pos}
	p.pos++ // ~
	for {
		par, ok := p.param()
		if ok {
			d.Params = append(d.Params, par)
		}
		if p.pos < len(p.s) && p.s[p.pos] == ',' {
			if !ok {
				d.Params = append(d.Params, Param{})
			}
			p.pos++
			continue
		}
		break
	}
	for p.pos < len(p.s) {
		c := p.s[p.pos]
		if c == ':' {
			if d.Colon {
				fail("syntax", "two colons")
			}
			d.Colon = true
		} else if c == '@' {
			if d.At {
				fail("syntax", "two at-signs")
			}
			d.At = true
		} else {
			break
		}
		p.pos++
	}
	if len(p.s) <= p.pos {
		fail("syntax", "control string ends inside a directive")
	}
	d.Raw = p.s[p.pos]
	d.Ch = unicode.ToLower(d.Raw)
	p.pos++
	d.End = p.pos
	d.HeadEnd = p.pos
	return d
}

func (p *parser) param() (Param, bool) {
	if len(p.s) <= p.pos {
		return Param{}, false
	}
	c := p.s[p.pos]
	switch {
	case c == '\'':
		if len(p.s) <= p.pos+1 {
			fail("syntax", "quote at end")
		}
		p.pos += 2
		return Param{Kind: 'c', C: p.s[p.pos-1]}, true
	case c == 'v' || c == 'V':
		p.pos++
		return Param{Kind: 'v', C: c}, true
	case c == '#':
		p.pos++
		return Param{Kind: '#'}, true
	case c == '+' || c == '-' || ('0' <= c && c <= '9'):
		st := p.pos
		p.pos++
		for p.pos < len(p.s) && '0' <= p.s[p.pos] && p.s[p.pos] <= '9' {
			p.pos++
		}
		txt := string(p.s[st:p.pos])
		if txt == "+" || txt == "-" {
			fail("syntax", "sign without digits")
		}
		var n int
		if _, err := fmt.Sscanf(txt, "%d", &n); err != nil || 9 < len(txt) {
			fail("unspec", "parameter %s", txt)
		}
		return Param{Kind: 'n', N: n, Plus: c == '+'}, true
	}
	return Param{}, false
}

// ---------------------------------------------------------------------------

type actx struct {
	args []Val
	pos  int
}

func (a *actx) remaining() int { return len(a.args) - a.pos }

func (a *actx) next(what string) Val {
	if len(a.args) <= a.pos {
		fail("args", "no argument left for %s", what)
	}
	v := a.args[a.pos]
	a.pos++
	return v
}

type caretExit struct{}

type state struct {
	p     Printer
	o     Opts
	used  Used
	out   []rune
	steps int
	cache map[string][]*Dir
}

// rp is a resolved parameter.
type rp struct {
	kind byte // 'n', 'c' or 0
	n    *big.Int
	c    rune
}

// Render produces the text the directive definitions give for ctl and args.
func Render(ctl string, args []Val, p Printer, o Opts) (text string, used Used, err error) {
	st := &state{p: p, o: o, cache: map[string][]*Dir{}}
	defer func() {
		if r := recover(); r != nil {
			switch tr := r.(type) {
			case *Error:
				err = tr
				used = st.used
			case caretExit:
				text = string(st.out)
				used = st.used
			default:
				panic(r)
			}
		}
	}()
	dirs, perr := Parse(ctl)
	if perr != nil {
		return "", Used{}, perr
	}
	st.run(dirs, &actx{args: args})
	return string(st.out), st.used, nil
}

func (st *state) tick() {
	st.steps++
	if 600000 < st.steps || 300000 < len(st.out) {
		fail("budget", "render budget exceeded")
	}
}

func (st *state) run(dirs []*Dir, a *actx) {
	for _, d := range dirs {
		st.tick()
		if d.Ch == 0 {
			st.out = append(st.out, []rune(d.Text)...)
			continue
		}
		st.exec(d, a)
	}
}

func (st *state) trace(d *Dir, role string, i int, v Val) {
	if st.o.Trace != nil {
		st.o.Trace(d, role, i, v)
	}
}

func (st *state) params(d *Dir, a *actx, max int) []rp {
	if max < len(d.Params) {
		fail("unspec", "too many parameters for ~%c", d.Raw)
	}
	out := make([]rp, max)
	defer func() {
		if st.o.Trace == nil {
			return
		}
		for i, p := range out {
			switch p.kind {
			case 'n':
				st.trace(d, "param", i, Val{K: "i", S: p.n.String()})
			case 'c':
				st.trace(d, "param", i, Val{K: "c", S: string(p.c)})
			default:
				st.trace(d, "param", i, Val{})
			}
		}
	}()
	for i, p := range d.Params {
		switch p.Kind {
		case 'n':
			out[i] = rp{kind: 'n', n: big.NewInt(int64(p.N))}
		case 'c':
			out[i] = rp{kind: 'c', c: p.C}
		case '#':
			out[i] = rp{kind: 'n', n: big.NewInt(int64(a.remaining()))}
		case 'v':
			v := a.next("v parameter")
			switch {
			case v.IsNil():
				st.trace(d, "v-nil", i, v)
			case v.K == "i":
				n, _ := v.Int()
				out[i] = rp{kind: 'n', n: n}
			case v.K == "c":
				out[i] = rp{kind: 'c', c: []rune(v.S)[0]}
			default:
				fail("type", "v parameter is neither integer, character nor nil")
			}
		}
	}
	return out
}

func (st *state) intParam(p rp, def int, min int, what string) int {
	switch p.kind {
	case 0:
		return def
	case 'n':
		if !p.n.IsInt64() || p.n.Int64() < int64(min) || 100000 < p.n.Int64() {
			fail("param", "%s out of range", what)
		}
		return int(p.n.Int64())
	}
	fail("param", "%s must be an integer", what)
	return 0
}

func (st *state) charParam(p rp, def rune, what string) rune {
	switch p.kind {
	case 0:
		return def
	case 'c':
		return p.c
	}
	fail("param", "%s must be a character", what)
	return 0
}

func (st *state) column() int {
	col := 0
	for i := len(st.out) - 1; 0 <= i; i-- {
		if st.out[i] == '\n' {
			break
		}
		col++
	}
	return col
}

func (st *state) spaces(n int) {
	for ; 0 < n; n-- {
		st.tick()
		st.out = append(st.out, ' ')
	}
}

func (st *state) noMods(d *Dir) {
	if d.Colon || d.At {
		fail("unspec", "modifier on ~%c", d.Raw)
	}
}

func (st *state) exec(d *Dir, a *actx) {
	switch d.Ch {
	case 'a', 's':
		ps := st.params(d, a, 4)
		v := a.next("~A/~S")
		st.trace(d, "arg", 0, v)
		var txt string
		switch {
		case d.Colon && v.IsNil():
			txt = "()"
		case d.Ch == 'a':
			txt = st.p.Princ(v)
		default:
			txt = st.p.Prin1(v)
		}
		mincol := st.intParam(ps[0], 0, 0, "mincol")
		colinc := st.intParam(ps[1], 1, 0, "colinc")
		minpad := st.intParam(ps[2], 0, 0, "minpad")
		padchar := st.charParam(ps[3], ' ', "padchar")
		body := []rune(txt)
		pad := minpad
		for len(body)+pad < mincol {
			if colinc == 0 {
				fail("param", "colinc 0 cannot reach mincol")
			}
			pad += colinc
			st.tick()
		}
		padding := []rune(strings.Repeat(string(padchar), pad))
		if d.At {
			st.out = append(append(st.out, padding...), body...)
		} else {
			st.out = append(append(st.out, body...), padding...)
		}
	case 'd', 'b', 'o', 'x':
		ps := st.params(d, a, 4)
		base := map[rune]int{'d': 10, 'b': 2, 'o': 8, 'x': 16}[d.Ch]
		st.integer(d, a, ps, base)
	case 'r':
		if len(d.Params) == 0 {
			v := a.next("~R")
			st.trace(d, "arg", 0, v)
			n, ok := v.Int()
			if !ok {
				fail("type", "~R needs an integer")
			}
			switch {
			case d.At:
				st.out = append(st.out, []rune(Roman(n, d.Colon))...)
			default:
				st.out = append(st.out, []rune(st.english(n, d.Colon))...)
			}
			return
		}
		ps := st.params(d, a, 5)
		if ps[0].kind == 0 {
			fail("unspec", "~R with parameters but no radix")
		}
		radix := st.intParam(ps[0], 10, 2, "radix")
		if 36 < radix {
			fail("param", "radix above 36")
		}
		st.integer(d, a, ps[1:], radix)
	case 'c':
		if 0 < len(d.Params) {
			fail("unspec", "parameters on ~C")
		}
		v := a.next("~C")
		st.trace(d, "arg", 0, v)
		if v.K != "c" {
			fail("type", "~C needs a character")
		}
		c := []rune(v.S)[0]
		switch {
		case d.At && !d.Colon:
			st.out = append(st.out, []rune(st.p.Prin1(v))...)
		case d.Colon:
			if c != ' ' && unicode.IsGraphic(c) && !unicode.IsSpace(c) {
				st.out = append(st.out, c)
			} else if name, ok := charNames[c]; ok {
				st.out = append(st.out, []rune(name)...)
			} else {
				fail("unspec", "name of character %U", c)
			}
		default:
			st.out = append(st.out, c)
		}
	case '%':
		st.noMods(d)
		ps := st.params(d, a, 1)
		for n := st.intParam(ps[0], 1, 0, "count"); 0 < n; n-- {
			st.tick()
			st.out = append(st.out, '\n')
		}
	case '~':
		st.noMods(d)
		ps := st.params(d, a, 1)
		for n := st.intParam(ps[0], 1, 0, "count"); 0 < n; n-- {
			st.tick()
			st.out = append(st.out, '~')
		}
	case '&':
		st.noMods(d)
		ps := st.params(d, a, 1)
		n := st.intParam(ps[0], 1, 0, "count")
		if n == 0 {
			return
		}
		if len(st.out) == 0 {
			st.used.Fresh = true
			if st.o.FreshAtStart {
				st.out = append(st.out, '\n')
			}
		} else if st.out[len(st.out)-1] != '\n' {
			st.out = append(st.out, '\n')
		}
		for ; 1 < n; n-- {
			st.tick()
			st.out = append(st.out, '\n')
		}
	case 't':
		if d.Colon {
			fail("unspec", "~:T")
		}
		ps := st.params(d, a, 2)
		c1 := st.intParam(ps[0], 1, 0, "colnum")
		c2 := st.intParam(ps[1], 1, 0, "colinc")
		cur := st.column()
		if d.At {
			st.spaces(c1)
			cur += c1
			if 0 < c2 && cur%c2 != 0 {
				st.spaces(c2 - cur%c2)
			}
			return
		}
		switch {
		case cur < c1:
			st.spaces(c1 - cur)
		case c2 == 0:
		default:
			// at or beyond colnum: on to colnum+k*colinc for the smallest
			// positive k. slip's text ("enough spaces to reach colnum") can be
			// read as: already exactly at colnum means nothing to do.
			if cur == c1 {
				st.used.TabStop = true
				if st.o.TabStopStay {
					return
				}
			}
			st.spaces(c2 - (cur-c1)%c2)
		}
	case '*':
		ps := st.params(d, a, 1)
		if d.Colon && d.At {
			fail("unspec", "~:@*")
		}
		var np int
		switch {
		case d.At:
			np = st.intParam(ps[0], 0, 0, "position")
		case d.Colon:
			np = a.pos - st.intParam(ps[0], 1, 0, "count")
		default:
			np = a.pos + st.intParam(ps[0], 1, 0, "count")
		}
		if np < 0 || len(a.args) < np {
			fail("args", "~* moves outside the arguments")
		}
		a.pos = np
	case '?':
		if d.Colon || 0 < len(d.Params) {
			fail("unspec", "~:? or parameters")
		}
		cv := a.next("~? control")
		st.trace(d, "ctl", 0, cv)
		if cv.K != "s" {
			fail("type", "~? needs a control string")
		}
		sub, ok := st.cache[cv.S]
		if !ok {
			var err error
			if sub, err = Parse(cv.S); err != nil {
				panic(err)
			}
			st.cache[cv.S] = sub
		}
		inner := a
		if !d.At {
			lv := a.next("~? arguments")
			st.trace(d, "list", 0, lv)
			if lv.K != "l" {
				fail("type", "~? needs an argument list")
			}
			inner = &actx{args: lv.L}
		}
		st.catchCaret(func() { st.run(sub, inner) })
	case 'p':
		if 0 < len(d.Params) {
			fail("unspec", "parameters on ~P")
		}
		if d.Colon {
			if a.pos == 0 {
				fail("args", "~:P at the first argument")
			}
			a.pos--
		}
		v := a.next("~P")
		st.trace(d, "arg", 0, v)
		one := v.K == "i" && v.S == "1"
		switch {
		case d.At && one:
			st.out = append(st.out, 'y')
		case d.At:
			st.out = append(st.out, 'i', 'e', 's')
		case !one:
			st.out = append(st.out, 's')
		}
	case '(':
		if 0 < len(d.Params) {
			fail("unspec", "parameters on ~(")
		}
		start := len(st.out)
		conv := func() {
			seg := string(st.out[start:])
			st.trace(d, "case", 0, Val{K: "s", S: seg})
			st.out = append(st.out[:start], []rune(convertCase(seg, d.Colon, d.At))...)
		}
		func() {
			defer func() {
				if r := recover(); r != nil {
					if _, ok := r.(caretExit); ok {
						conv()
					}
					panic(r)
				}
			}()
			st.run(d.Clauses[0], a)
		}()
		conv()
	case '[':
		st.cond(d, a)
	case '{':
		st.iter(d, a)
	case '^':
		if d.Colon || d.At || 0 < len(d.Params) {
			fail("unspec", "~^ with modifiers or parameters")
		}
		if a.remaining() == 0 {
			panic(caretExit{})
		}
	default:
		fail("unspec", "directive ~%c is outside the property", d.Raw)
	}
}

func (st *state) catchCaret(fn func()) (exited bool) {
	defer func() {
		if r := recover(); r != nil {
			if _, ok := r.(caretExit); ok {
				exited = true
				return
			}
			panic(r)
		}
	}()
	fn()
	return false
}

var charNames = map[rune]string{' ': "Space", '\n': "Newline", '\t': "Tab", '\f': "Page", '\r': "Return", 0x7f: "Rubout", '\b': "Backspace"}

func (st *state) integer(d *Dir, a *actx, ps []rp, base int) {
	v := a.next("integer directive")
	st.trace(d, "arg", 0, v)
	n, ok := v.Int()
	if !ok {
		if 0 < len(d.Params) || d.Colon || d.At {
			fail("unspec", "non-integer argument with parameters or modifiers")
		}
		if st.o.BaseBound {
			fail("unspec", "non-integer argument to an integer directive while *print-base* / *print-radix* are bound")
		}
		st.out = append(st.out, []rune(st.p.Princ(v))...)
		return
	}
	mincol := st.intParam(ps[0], 0, 0, "mincol")
	padchar := st.charParam(ps[1], ' ', "padchar")
	commachar := st.charParam(ps[2], ',', "commachar")
	interval := st.intParam(ps[3], 3, 1, "comma-interval")
	digits := new(big.Int).Abs(n).Text(base)
	if d.Colon {
		var b []rune
		for i, c := range digits {
			if 0 < i && (len(digits)-i)%interval == 0 {
				b = append(b, commachar)
			}
			b = append(b, c)
		}
		digits = string(b)
	}
	switch {
	case n.Sign() < 0:
		digits = "-" + digits
	case d.At:
		digits = "+" + digits
	}
	body := []rune(digits)
	for i := len(body); i < mincol; i++ {
		st.tick()
		st.out = append(st.out, padchar)
	}
	st.out = append(st.out, body...)
}

func (st *state) cond(d *Dir, a *actx) {
	if 1 < len(d.Params) {
		fail("unspec", "too many parameters for ~[")
	}
	switch {
	case d.Colon && d.At:
		fail("unspec", "~:@[")
	case d.Colon:
		if 0 < len(d.Params) || len(d.Clauses) != 2 || d.Default {
			fail("unspec", "~:[ needs exactly two clauses")
		}
		v := a.next("~:[")
		if v.IsNil() {
			st.run(d.Clauses[0], a)
		} else {
			st.run(d.Clauses[1], a)
		}
	case d.At:
		if 0 < len(d.Params) || len(d.Clauses) != 1 || d.Default {
			fail("unspec", "~@[ needs exactly one clause")
		}
		v := a.next("~@[")
		if !v.IsNil() {
			a.pos--
			st.run(d.Clauses[0], a)
		}
	default:
		ps := st.params(d, a, 1)
		var sel *big.Int
		switch ps[0].kind {
		case 'n':
			sel = ps[0].n
		case 'c':
			fail("param", "~[ selector must be an integer")
		default:
			v := a.next("~[")
			st.trace(d, "arg", 0, v)
			n, ok := v.Int()
			if !ok {
				fail("type", "~[ needs an integer")
			}
			sel = n
		}
		n := len(d.Clauses)
		if d.Default {
			n--
		}
		if 0 <= sel.Sign() && sel.IsInt64() && sel.Int64() < int64(n) {
			st.run(d.Clauses[sel.Int64()], a)
		} else if d.Default {
			st.run(d.Clauses[n], a)
		}
	}
}

func (st *state) iter(d *Dir, a *actx) {
	body := d.Clauses[0]
	if len(body) == 0 {
		fail("unspec", "~{~} takes its body from an argument")
	}
	ps := st.params(d, a, 1)
	max := -1
	if ps[0].kind != 0 {
		max = st.intParam(ps[0], 0, 0, "iteration limit")
	}
	listOf := func(v Val, what string) []Val {
		if v.K != "l" {
			fail("type", "%s must be a list", what)
		}
		return v.L
	}
	// pass runs the body once; it reports whether ~^ left it.
	pass := func(c *actx) bool {
		before := c.pos
		exited := st.catchCaret(func() { st.run(body, c) })
		if !exited && c.pos <= before && max < 0 && 0 < c.remaining() {
			fail("unspec", "iteration body consumes no argument")
		}
		return exited
	}
	switch {
	case !d.Colon:
		c := a
		if !d.At {
			c = &actx{args: listOf(a.next("~{"), "~{ argument")}
		}
		for i := 0; max < 0 || i < max; i++ {
			if c.remaining() == 0 && !(d.CloseColon && i == 0) {
				break
			}
			if pass(c) {
				break
			}
		}
	default:
		var lists []Val
		if d.At {
			lists = a.args[a.pos:]
		} else {
			lists = listOf(a.next("~:{"), "~:{ argument")
		}
		if d.CloseColon && len(lists) == 0 {
			fail("unspec", "~:} with no sublists")
		}
		for i, lv := range lists {
			if 0 <= max && max <= i {
				break
			}
			sub := &actx{args: listOf(lv, "sublist")}
			if d.At {
				a.pos++
			}
			before := len(st.out)
			_ = before
			st.catchCaret(func() { st.run(body, sub) })
		}
	}
}

func isAlnum(c rune) bool { return unicode.IsLetter(c) || unicode.IsDigit(c) }

func convertCase(s string, colon, at bool) string {
	rs := []rune(s)
	switch {
	case colon && at:
		for i, c := range rs {
			rs[i] = unicode.ToUpper(c)
		}
	case colon:
		inWord := false
		for i, c := range rs {
			if isAlnum(c) {
				if inWord {
					rs[i] = unicode.ToLower(c)
				} else {
					rs[i] = unicode.ToUpper(c)
				}
				inWord = true
			} else {
				inWord = false
			}
		}
	case at:
		done := false
		for i, c := range rs {
			rs[i] = unicode.ToLower(c)
			if !done && isAlnum(c) {
				rs[i] = unicode.ToUpper(c)
				done = true
			}
		}
	default:
		for i, c := range rs {
			rs[i] = unicode.ToLower(c)
		}
	}
	return string(rs)
}
