package c15

import (
	"fmt"
	"math/big"
	"strings"

	"verif/internal/c15/ref"
)

// buildProbes fills the seed-independent probe list: bounded-exhaustive
// sweeps of each directive's parameters and of the block shapes.
func buildProbes() {
	add := func(ctl string, args ...ref.Val) { probes = append(probes, probe{ctl: ctl, args: args}) }
	ints := func(ns ...int64) []ref.Val {
		out := make([]ref.Val, len(ns))
		for i, n := range ns {
			out[i] = iv(n)
		}
		return out
	}

	// 1. every printable ASCII character as pad / comma / A-pad character, literal and by v
	for c := rune(0x20); c < 0x7f; c++ {
		q := "'" + string(c)
		add("~6,"+q+"d", iv(42))
		add("~,,"+q+":d", iv(1234567))
		add("~6,,,"+q+"a", sv("x"))
		add("~6,,,"+q+"@s", sv("x"))
		add("~6,vd", cv(c), iv(42))
		add("~,,v:d", cv(c), iv(1234567))
		add("~6,,,va", cv(c), sv("x"))
	}

	// 2. ~T over column x colnum x colinc, absolute and relative
	const pre = "abcdefghijkl"
	for l := 0; l <= 10; l++ {
		for colnum := -1; colnum <= 10; colnum++ {
			for _, colinc := range []int{-1, 0, 1, 2, 3, 5} {
				for _, m := range []string{"", "@"} {
					p1, p2 := "", ""
					if 0 <= colnum {
						p1 = fmt.Sprint(colnum)
					}
					if 0 <= colinc {
						p2 = fmt.Sprint(colinc)
					}
					add(pre[:l] + "~" + joinParams(p1, p2) + m + "t|")
				}
			}
		}
	}
	add("ab~%cd~5t|")
	add("ab~%cd~1,4t|")
	add("~a~6t|", sv("x\nyz"))
	add("~vt|", iv(4))
	add("ab~v,vt|", iv(1), iv(4))
	add("~#t|", iv(1), iv(2))
	add("ab~3T|")

	// 3. ~C over characters and modifiers
	chars := []rune{}
	for c := rune(0x20); c < 0x7f; c++ {
		chars = append(chars, c)
	}
	chars = append(chars, '\n', '\t', 'é', 'λ', '日')
	for _, c := range chars {
		for _, m := range []string{"", ":", "@", ":@"} {
			add("<~"+m+"c>", cv(c))
		}
	}

	// 4. case conversion
	for _, w := range append(append([]string{}, caseWords...), dirtyCaseWords...) {
		for _, m := range []string{"", ":", "@", ":@"} {
			add("~" + m + "(" + w + "~)")
			add("<~"+m+"(~a~)>", sv(w))
		}
	}
	for _, m := range []string{"", ":", "@", ":@"} {
		add("~"+m+"(~r and ~@r~)", iv(1234), iv(1234))
		add("~"+m+"(~x~)", iv(255))
		add("~"+m+"(~x~)", iv(0x1f))
		add("~"+m+"(~a~) ~a", yv("foo"), sv("ABC"))
		add("~" + m + "(~:(ab cd~) EF~)")
	}

	// 5. newline family in three contexts
	for _, ctx := range []string{"", "a", "a~%", "a~%b"} {
		for _, p := range []string{"", "0", "1", "2", "3"} {
			for _, d := range []string{"%", "&", "~"} {
				add(ctx + "~" + p + d + "|")
			}
		}
		add(ctx+"~v%|", iv(2))
		add(ctx+"~v&|", iv(2))
		add(ctx+"~v~|", nilv())
		add(ctx+"~#&|", iv(1), iv(2))
	}
	add("~a~&|", sv("x\n"))
	add("~a~&|", sv(""))

	// 6. conditional shapes
	for n := 1; n <= 4; n++ {
		for mask := 0; mask < 1<<n; mask++ { // bit set = empty clause
			if 3 < n && mask != 0 && mask != (1<<n)-1 && mask != 1 && mask != 1<<(n-1) {
				continue
			}
			for _, def := range []string{"", "~:;dflt", "~:;"} {
				var cl []string
				for i := 0; i < n; i++ {
					if mask&(1<<i) != 0 {
						cl = append(cl, "")
					} else {
						cl = append(cl, fmt.Sprintf("c%d", i))
					}
				}
				ctl := "<~[" + strings.Join(cl, "~;") + def + "~]>"
				for sel := int64(-1); sel <= int64(n)+1; sel++ {
					add(ctl, iv(sel))
				}
			}
		}
	}
	add("~[a~;b~]", bv(pow(2, 64)))
	add("~[a~;b~:;c~]", bv(pow(2, 64)))
	add("~[a~;b~:;c~]", bv(new(big.Int).Neg(pow(2, 64))))
	add("~[~a~;~s~;~d~]|~a", iv(0), sv("x"), iv(9))
	add("~[~a~;~s~;~d~]|~a", iv(1), sv("x"), iv(9))
	add("~[~a~;~s~;~d~]|~a", iv(2), iv(7), iv(9))
	add("~[a~;~a~]|", iv(1), iv(5))
	add("~[a~;k~a~]|", iv(1), iv(5))
	add("~1[a~;b~;c~]")
	add("~v[a~;b~;c~]", iv(2))
	add("~v[a~;b~;c~]|~a", nilv(), iv(1), iv(4))
	for k := 0; k <= 4; k++ {
		add("~#[none~;one~;two~:;many~]", ints(make([]int64, k)...)...)
		add("~a~#[ none~; one~; two~]", ints(make([]int64, k+1)...)...)
	}
	for _, v := range []ref.Val{nilv(), iv(0), sv(""), yv("foo"), lv(iv(1))} {
		add("~:[false~;true~]", v)
		add("~:[~;true~]", v)
		add("~:[false~;~]", v)
		add("~:[~a~;k~s~]", v, iv(3))
		add("~@[x=~a~]|~a", v, iv(4))
		add("~@[~]|~a", v, iv(4))
	}
	add("~[a~;:b~]", iv(1))
	add("~[a~;;b~]", iv(1))
	add("~[a~;@b~]", iv(1))
	add("~[a~;]b~]", iv(1))
	add("~[a~;[b~]", iv(1))
	add("a:b;c@d[e]f{g}h(i)j#k'l,m")

	// 7. iteration shapes
	lists := [][]int64{{}, {1}, {1, 2}, {1, 2, 3}, {1, 2, 3, 4}}
	bodies := []struct {
		b string
		n int
	}{{"~a", 1}, {"<~a,~a>", 2}, {"~a~^, ", 1}, {"~a~^-~a~^;", 2}, {"[~d]", 1}}
	for _, body := range bodies {
		for _, l := range lists {
			for _, mx := range []string{"", "0", "1", "2", "5"} {
				for _, cl := range []string{"~}", "~:}"} {
					if cl == "~:}" && len(l) == 0 {
						continue
					}
					if len(l)%body.n != 0 && !strings.Contains(body.b, "~^") {
						continue
					}
					el := ints(l...)
					add("~"+mx+"{"+body.b+cl+"|", lv(el...))
					add("~"+mx+"@{"+body.b+cl+"|", el...)
					// sublists of body.n elements
					var subs []ref.Val
					for i := 0; i+body.n <= len(l); i += body.n {
						subs = append(subs, lv(ints(l[i:i+body.n]...)...))
					}
					if len(l)%body.n != 0 {
						subs = append(subs, lv(ints(l[len(l)-len(l)%body.n:]...)...))
					}
					if cl == "~}" {
						add("~"+mx+":{"+body.b+cl+"|", lv(subs...))
						add("~"+mx+":@{"+body.b+cl+"|", subs...)
					}
				}
			}
		}
	}
	add("~{x~:}|", nilv())
	add("~@{x~:}|")
	add("~0{x~:}|", nilv())
	add("~2{x~:}|", nilv())
	add("~3{x~}|", lv(iv(1)))
	add("~#{~a~}|~a", lv(ints(1, 2, 3)...), iv(9))
	add("~v{~a~}|", iv(2), lv(ints(1, 2, 3)...))
	add("~v{~a~}|", nilv(), lv(ints(1, 2, 3)...))
	add("~:{~a~^-~a~}|", lv(lv(ints(1, 2)...), lv(ints(3)...), lv(ints(4, 5)...)))
	add("~:{~a:~a ~}|", lv(lv(ints(1, 2, 99)...), lv(ints(3, 4)...)))
	add("~{~a~}~a", lv(ints(1, 2)...), iv(3))
	add("~@{~a~^ ~}", ints(1, 2, 3)...)
	add("~a ~@{~a~^,~}", ints(1, 2, 3)...)
	add("~{~a~#[~; and ~:;, ~]~}", lv(ints(1, 2, 3)...))

	// 8. nesting of blocks, with and without text after the inner block
	for _, after := range []string{"", " ", "~a"} {
		ex := []ref.Val{}
		_ = ex
		tail := func(vs ...ref.Val) []ref.Val {
			if after == "~a" {
				return append(vs, iv(7))
			}
			return vs
		}
		tailIn := func(vs ...ref.Val) ref.Val { // the extra argument lives in the iterated list
			if after == "~a" {
				return lv(append(vs, iv(7))...)
			}
			return lv(vs...)
		}
		add("~{~{~a~}"+after+"~}|", lv(tailIn(lv(ints(1, 2)...)).L...))
		add("~{~(~a~)"+after+"~}|", tailIn(sv("AB")))
		add("~{~[x~;y~]"+after+"~}|", tailIn(iv(1)))
		add("~(~{~a~}"+after+"~)|", tail(lv(sv("AB"), sv("CD")))...)
		add("~(~(~a~)"+after+"~)|", tail(sv("AB"))...)
		add("~(~[AA~;BB~]"+after+"~)|", tail(iv(1))...)
		add("~[~{~a~}"+after+"~;k~]|", tail(iv(0), lv(ints(1, 2)...))...)
		add("~[~(AB~)"+after+"~;k~]|", tail(iv(0))...)
		add("~[~[a~;b~]"+after+"~;k~]|", tail(iv(0), iv(1))...)
		add("~[k~;m~[a~;b~]"+after+"~]|", tail(iv(1), iv(1))...)
		add("~:[k~;m~@[~a~]"+after+"~]|", tail(iv(1), iv(1))...)
		add("~@[~a~:[a~;b~]"+after+"~]|", tail(iv(1), iv(1))...)
	}
	add("~{~{~a~}~{~a~}.~}|", lv(lv(ints(1, 2)...), lv(ints(3)...)))
	add("~{~2{~a~}.~}|", lv(lv(ints(1, 2, 3)...)))
	add("~{~:{~a~}.~}|", lv(lv(lv(ints(1)...), lv(ints(2)...))))
	add("~{~@{~a~}.~}|", lv(ints(1, 2)...))
	add("~[~#[a~;b~].~;k~]|", iv(0))
	add("~[~1[a~;b~].~;k~]|", iv(0))
	add("~[~:[a~;b~].~;k~]|", iv(0), iv(1))
	add("~{~(~{~a~}~)~}|", lv(lv(sv("A"), sv("B"))))
	add("~:{~{~a~}-~a ~}|", lv(lv(lv(ints(1, 2)...), iv(3)), lv(nilv(), iv(4))))

	// 9. argument navigation
	add("~a~:*~a", iv(1))
	add("~a~a~2:*~a~a", iv(1), iv(2))
	add("~a~0:*~a", iv(1), iv(2))
	add("~*~a", iv(1), iv(2))
	add("~0*~a", iv(1), iv(2))
	add("~2*~a", iv(1), iv(2), iv(3))
	add("~a~a~@*~a", iv(1), iv(2))
	add("~a~a~1@*~a", iv(1), iv(2))
	add("~a~a~2@*", iv(1), iv(2))
	add("~a~v*~a", iv(1), iv(1), iv(8), iv(9))
	add("~a~#*", iv(1), iv(2), iv(3))
	add("~{~a~:*~s~}", lv(sv("a"), sv("b")))
	add("~{~a~*~}", lv(ints(1, 2, 3, 4)...))
	add("~{~a~@*~a~*~}", lv(ints(1, 2)...))

	// 10. recursive processing
	add("~?~a", sv("~ax"), lv(ints(1, 2)...), iv(3))
	add("~@?~a", sv("~ax"), iv(1), iv(2))
	add("~?|", sv("~a~^,~a"), lv(ints(1)...))
	add("~?|~a", sv("~a~^,~a"), lv(ints(1)...), iv(5))
	add("~@?|", sv("~a~^,~a"), iv(1))
	add("~?|", sv(""), nilv())
	add("~?|", sv("~{~a~}"), lv(lv(ints(1, 2)...)))
	add("~{~?~}|", lv(sv("<~a>"), lv(iv(1)), sv("[~a~a]"), lv(ints(2, 3)...)))
	add("~(~?~)|", sv("AB~a"), lv(sv("CD")))
	add("~?|", sv("~?"), lv(sv("~a!"), lv(iv(1))))

	// 11. plural
	for n := int64(-1); n <= 3; n++ {
		add("~p|~@p", iv(n), iv(n))
		add("~d cat~:p|~d fl~:@p|~d fl~@:p", iv(n), iv(n), iv(n))
		add("~a~:P", iv(n))
	}
	add("~p~p~p~p", sv("1"), yv("one"), nilv(), bv(pow(2, 64)))
	add("~{~d item~:p~^, ~}", lv(ints(1, 2, 1)...))

	// 12. ~A / ~S parameter grid
	for _, d := range []string{"a", "s"} {
		for _, mincol := range []string{"", "0", "3", "8"} {
			for _, colinc := range []string{"", "1", "3"} {
				for _, minpad := range []string{"", "0", "2"} {
					for _, pad := range []string{"", "'*", "'."} {
						for _, m := range []string{"", ":", "@", ":@"} {
							ctl := "<~" + joinParams(mincol, colinc, minpad, pad) + m + d + ">"
							add(ctl, sv("ab"))
							add(ctl, iv(5))
							add(ctl, nilv())
							add(ctl, sv("abcdefghij"))
							add(ctl, lv(iv(1), sv("x"), nilv()))
						}
					}
				}
			}
		}
	}

	// 13. v and # parameters
	for _, d := range []string{"d", "b", "o", "x", "a", "s"} {
		add("~v"+d+"|", nilv(), iv(5))
		add("~v"+d+"|", iv(0), iv(5))
		add("~v"+d+"|", iv(6), iv(5))
		add("~V"+d+"|", iv(6), iv(5))
		add("~#"+d+"|~a~a", iv(5), iv(6), iv(7))
	}
	add("~v,v,v,v:d|", iv(12), cv('0'), cv('.'), iv(2), iv(123456))
	add("~v,v,v,v:d|", nilv(), nilv(), nilv(), nilv(), iv(123456))
	add("~v,v,v,va|", iv(8), iv(2), iv(1), cv('.'), sv("ab"))
	add("~v,v,v,v@a|", nilv(), nilv(), nilv(), nilv(), sv("ab"))
	add("~,,v:d", cv(' '), iv(1234567))
	add("~,,,v:d", iv(1), iv(1234567))
	add("~,,,v:x", iv(4), bv(pow(2, 100)))

	// 14. ~radix R
	for radix := 2; radix <= 36; radix++ {
		for _, m := range []string{"", ":", "@", ":@"} {
			for _, n := range []string{"0", "35", "-255", "1295", "18446744073709551616", "-123456789012345678901234567890"} {
				v, _ := new(big.Int).SetString(n, 10)
				add(fmt.Sprintf("~%d%sr", radix, m), bv(v))
			}
		}
	}
	add("~10,8,'0r", iv(255))
	add("~16,8,'0,'.,2:r", iv(65535))
	add("~v,vr", iv(2), iv(10), iv(5))
	add("~8R", iv(64))

	// 15. integer directives given something else
	for _, d := range []string{"d", "b", "o", "x"} {
		add("~"+d, sv("abc"))
		add("~"+d, yv("foo"))
		add("~"+d, lv(iv(1), sv("a")))
		add("~"+d, cv('a'))
		add("~"+d, nilv())
	}

	// 16. ~^ outside iterations
	add("a~^b")
	add("~a~^b", iv(1))
	add("~a~^~a", iv(1), iv(2))
	add("~(ab~^cd~)")
	add("~a~(~a~^~a~)", iv(1), sv("AB"))
	add("~[a~;b~^c~]d", iv(1))
	add("~{~a~[~;~^~]-~}", lv(ints(1, 0, 2, 1)...))

	// 17. text that is not ASCII
	add("~5a|", sv("é"))
	add("~5@a|", sv("日本"))
	add("é~5t|")
	add("~a~5t|", sv("λλ"))
	add("~5,'éd", iv(1))
	add("~,,'·:d", iv(1234567))
	add("~:(élan vital~)")
	add("~:@(straße é~)")
	add("~(ÉCOLE~)")
	add("~a~a", sv("日本"), cv('語'))

	// 18. upper-case directive characters
	add("~D ~B ~O ~X ~A ~S ~C ~P ~R ~:R ~@R", iv(10), iv(10), iv(10), iv(10), sv("s"), sv("s"), cv('c'), iv(2), iv(11), iv(11), iv(11))
	add("~5T|~2%~&~(AB~)~[a~]~{~A~}", iv(0), lv(iv(1)))

	// 19. Roman numerals outside 1..3999 and English at the limit
	for _, n := range []int64{0, -1, 4000, 4999, 5000} {
		add("~@r", iv(n))
		add("~:@r", iv(n))
	}
	add("~r", bv(addi(ref.EnglishLimit, -1)))
	add("~:r", bv(addi(ref.EnglishLimit, -1)))
	add("~r", bv(ref.EnglishLimit))

	// 20. column-sensitive directives inside blocks and sub-controls
	for _, d := range []string{"~8t|", "~&|", "~2&|"} {
		add("abc~(" + d + "~)")
		add("abc~["+d+"~]", iv(0))
		add("abc~:[k~;"+"m"+d+"~]", iv(1))
		add("abc~@[~a"+d+"~]", iv(1))
		add("abc~{~a"+d+"~}", lv(ints(1, 2)...))
		add("abc~@{~a"+d+"~}", ints(1, 2)...)
		add("abc~:{~a"+d+"~}", lv(lv(iv(1)), lv(iv(2))))
		add("abc~?", sv(d), lv(iv(1)))
		add("abc~@?", sv(d))
		add("abc~%~{~a"+d+"~}", lv(ints(1, 2)...))
	}
	for _, d := range []string{"~&x", "~2&x", "~0&x"} {
		add("abc~%~(" + d + "~)")
		add("abc~%~["+d+"~]", iv(0))
		add("abc~%~{"+d+"~a~}", lv(ints(1, 2)...))
		add("~a~?", sv("abc\n"), sv(d), lv(iv(1)))
		add("~%~@?", sv(d))
	}
	// ~n~ inside blocks
	add("~(a~2~~)")
	add("~(a~2~b~)")
	add("~{~a~2~~}", lv(ints(1, 2)...))
	add("~[a~2~~;b~]", iv(0))
	add("~[a~;b~v~~]", iv(1), iv(2))
	add("~(a~#~~)", iv(1))
	// ~A of the empty string, nested iteration closed by ~:}
	add("<~a>", sv(""))
	add("<~5a>", sv(""))
	add("<~s>", sv(""))
	add("~{~{~a~:}.~a~}", lv(lv(iv(1)), iv(2)))
	add("~{~a~{~a~:} ~}", lv(iv(1), lv(ints(2, 3)...)))
	add("~10r", iv(1000))
	add("~10r", iv(20))
	add("~{~2{~a~} ~}", lv(lv(ints(1, 2, 3)...)))
	add("~{~#{~a~} ~}", lv(lv(ints(1, 2, 3)...)))
	add("~{~v{~a~} ~}", lv(iv(1), lv(ints(1, 2, 3)...)))

	// literal text that starts with the block's own closing or opening character, a colon
	// or an at-sign directly behind the terminator of a block: plain text, never part of it
	for _, lit := range []string{"}", "}}", "{", ":}", "@}", ":", "~~}"} {
		for _, it := range []string{"~{~a~}", "~:{~a~}", "~@{~a~}", "~{~a~:}", "~{~{~a~}~}", "~1{~a~}"} {
			arg := lv(ints(1, 2)...)
			switch {
			case strings.HasPrefix(it, "~:{"), strings.HasPrefix(it, "~{~{"):
				arg = lv(lv(iv(1)), lv(iv(2)))
			}
			if strings.HasPrefix(it, "~@{") {
				add("{"+it+lit+"|~a", ints(1, 2)...)
				continue
			}
			add("{"+it+lit+"|~a", arg, iv(9))
			add("{"+it+lit+"|~a", nilv(), iv(9))
		}
	}
	for _, lit := range []string{")", "(", ":)", "]", "[", ":]", ";", ">", "<"} {
		add("(~(~a~)"+lit+"|~a", sv("Ab"), iv(9))
		add("(~:(~a~)"+lit+"|~a", sv("ab cd"), iv(9))
		add("[~[a~;b~]"+lit+"|~a", iv(1), iv(9))
		add("[~:[a~;b~]"+lit+"|~a", nilv(), iv(9))
		add("[~@[~a~]"+lit+"|~a", iv(3), iv(9))
	}

	buildProbes2(add, ints)
}

// buildProbes2: the deterministic blocks added in round 2.
func buildProbes2(add func(ctl string, args ...ref.Val), ints func(ns ...int64) []ref.Val) {
	// 21. sign x modifier x digit count 1..9 x comma interval for ~D ~B ~O ~X
	// (digit counts in the directive's own base), with and without mincol
	for _, d := range []struct {
		ch   string
		base int64
	}{{"d", 10}, {"b", 2}, {"o", 8}, {"x", 16}} {
		for k := int64(1); k <= 9; k++ {
			hi := addi(pow(d.base, k), -1) // k digits, all the largest
			lo := pow(d.base, k-1)         // 1 followed by zeros
			for _, n := range []*big.Int{hi, lo} {
				for _, sign := range []int{1, -1} {
					v := new(big.Int).Set(n)
					if sign < 0 {
						v.Neg(v)
					}
					for _, m := range []string{"", ":", "@", ":@"} {
						for _, iv := range []string{"", "1", "2", "3", "4"} {
							add("~"+joinParams("", "", "", iv)+m+d.ch, bv(v))
							add("~"+joinParams("14", "'0", "'.", iv)+m+d.ch, bv(v))
						}
					}
				}
			}
		}
	}

	// 22. every pairing of outer conditional kind x inner block kind, the inner
	// block followed by nothing, text or a directive
	type inner struct {
		txt  string
		args []ref.Val
	}
	inners := []inner{
		{"~[a~;b~;c~]", ints(1)},
		{"~[a~;b~:;c~]", ints(7)},
		{"~#[a~;b~;c~:;d~]", nil},
		{"~1[a~;b~;c~]", nil},
		{"~v[a~;b~;c~]", ints(2)},
		{"~:[a~;b~]", ints(5)},
		{"~@[<~a>~]", ints(5)},
		{"~{<~a>~}", []ref.Val{lv(ints(1, 2)...)}},
		{"~2{<~a>~}", []ref.Val{lv(ints(1, 2, 3)...)}},
		{"~:{<~a~a>~}", []ref.Val{lv(lv(ints(1, 2)...), lv(ints(3, 4)...))}},
		{"~(AB Cd~)", nil},
		{"~:(ab cd~)", nil},
		{"~?", []ref.Val{sv("<~a>"), lv(ints(6)...)}},
	}
	for _, in := range inners {
		for _, after := range []string{"", ".", "~a"} {
			x := in.txt + after
			xa := append([]ref.Val{}, in.args...)
			if after == "~a" {
				xa = append(xa, iv(8))
			}
			with := func(pre []ref.Val) []ref.Val { return append(append(append([]ref.Val{}, pre...), xa...), iv(9)) }
			add("~["+x+"~;k~]|~a", with(ints(0))...)
			add("~[k~;"+x+"~]|~a", with(ints(1))...)
			add("~[k~;m~:;"+x+"~]|~a", with(ints(5))...)
			add("~0["+x+"~;k~]|~a", with(nil)...)
			add("~1[k~;"+x+"~;m~]|~a", with(nil)...)
			add("~v[k~;"+x+"~;m~]|~a", with(ints(1))...)
			add("~:["+x+"~;k~]|~a", with([]ref.Val{nilv()})...)
			add("~:[k~;"+x+"~]|~a", with(ints(3))...)
			add("~@[~a"+x+"~]|~a", with(ints(3))...)
			// ~#[ selects by the number of arguments left: put the inner block
			// in the clause with that number
			left := len(xa) + 1
			cl := make([]string, left+2)
			for i := range cl {
				cl[i] = "k"
			}
			cl[left] = x
			add("~#["+strings.Join(cl, "~;")+"~]|~a", append(append([]ref.Val{}, xa...), iv(9))...)
			add("~#["+strings.Join(cl[:left], "~;")+"~:;"+x+"~]|~a", append(append([]ref.Val{}, xa...), iv(9))...)
		}
	}

	// 23. iteration variants x limit x element shapes (nested argument lists), no ~^
	type body struct {
		txt string
		el  func(i int64) []ref.Val // the arguments one pass consumes
	}
	bodies := []body{
		{"<~a>", func(i int64) []ref.Val { return ints(i) }},
		{"<~a,~s>", func(i int64) []ref.Val { return []ref.Val{iv(i), sv("s")} }},
		{"~{~a~}.", func(i int64) []ref.Val { return []ref.Val{lv(ints(i, i+1)...)} }},
		{"~:{~a-~a ~}.", func(i int64) []ref.Val { return []ref.Val{lv(lv(ints(i, 1)...), lv(ints(i, 2)...))} }},
		{"~@{~a~}.", func(i int64) []ref.Val { return ints(i) }}, // takes the rest of the pass's arguments
		{"~[x~;y~;z~]", func(i int64) []ref.Val { return ints(i % 3) }},
		{"~a~:*~s ", func(i int64) []ref.Val { return []ref.Val{sv("q")} }},
		{"~v,'.d ", func(i int64) []ref.Val { return ints(4, i) }},
		{"~?", func(i int64) []ref.Val { return []ref.Val{sv("(~a)"), lv(iv(i))} }},
		{"~(~a~) ", func(i int64) []ref.Val { return []ref.Val{sv("MiX")} }},
		{"~{~{~a~}~}.", func(i int64) []ref.Val { return []ref.Val{lv(lv(ints(i)...), lv(ints(i, i)...))} }},
	}
	for _, b := range bodies {
		for n := int64(0); n <= 3; n++ {
			var passes [][]ref.Val
			var flat []ref.Val
			var subs []ref.Val
			for i := int64(0); i < n; i++ {
				p := b.el(i)
				passes = append(passes, p)
				flat = append(flat, p...)
				subs = append(subs, lv(p...))
			}
			for _, mx := range []string{"", "0", "1", "2", "v", "#"} {
				pre := []ref.Val{}
				if mx == "v" {
					pre = ints(2)
				}
				tail := iv(99)
				add("~"+mx+"{"+b.txt+"~}|~a", append(append(append([]ref.Val{}, pre...), lv(flat...)), tail)...)
				add("~"+mx+":{"+b.txt+"~}|~a", append(append(append([]ref.Val{}, pre...), lv(subs...)), tail)...)
				if b.txt != "~@{~a~}." {
					add("~"+mx+"@{"+b.txt+"~}|", append(append([]ref.Val{}, pre...), flat...)...)
				}
				add("~"+mx+":@{"+b.txt+"~}|", append(append([]ref.Val{}, pre...), subs...)...)
			}
		}
	}

	// 24. ~* with every modifier and parameter, outside and inside iterations
	stars := []struct {
		txt string
		pre []ref.Val
	}{{"~*", nil}, {"~0*", nil}, {"~1*", nil}, {"~2*", nil}, {"~:*", nil}, {"~0:*", nil}, {"~1:*", nil}, {"~2:*", nil}, {"~3:*", nil},
		{"~@*", nil}, {"~0@*", nil}, {"~1@*", nil}, {"~3@*", nil}, {"~4@*", nil}, {"~v*", ints(1)}, {"~v:*", ints(1)}, {"~v@*", ints(2)},
		{"~v*", []ref.Val{nilv()}}, {"~#*", nil}, {"~#:*", nil}, {"~#@*", nil}}
	for _, st := range stars {
		for before := 0; before <= 3; before++ {
			ctl := strings.Repeat("~a", before) + st.txt + "[~a]"
			var a []ref.Val
			for i := 0; i < before; i++ {
				a = append(a, iv(int64(i)))
			}
			a = append(a, st.pre...)
			for i := 0; len(a) < 5+len(st.pre); i++ {
				a = append(a, iv(int64(10+i)))
			}
			add(ctl, a...)
			add("~6{"+ctl+"~}|~a", lv(a...), iv(99))
			add("~6:{"+ctl+"~}|~a", lv(lv(a...), lv(a...)), iv(99))
			add("~2@{"+ctl+"~}|", a...)
			add("~a~?~a", iv(70), sv(ctl), lv(a...), iv(71))
			add("~(~a"+st.txt+"~a~)", sv("Ab"), sv("Cd"), sv("Ef"), sv("Gh"))
			add("~[x~;~a"+st.txt+"~a~]~a", iv(1), iv(2), iv(3), iv(4), iv(5))
		}
	}

	// 25. ~? and ~@? handed control strings that contain blocks, in several contexts
	subs := []inner{
		{"<~a>", ints(1)},
		{"~{<~a>~}", []ref.Val{lv(ints(1, 2)...)}},
		{"~:{~a=~a ~}", []ref.Val{lv(lv(ints(1, 2)...), lv(ints(3, 4)...))}},
		{"~2{~a~}~a", []ref.Val{lv(ints(1, 2, 3)...), iv(4)}},
		{"~[a~;b~:;c~]~a", ints(1, 2)},
		{"~:[n~;y~] ~@[~a~]", []ref.Val{nilv(), iv(3)}},
		{"~(AB ~a~)", []ref.Val{sv("CD")}},
		{"~:(~a ~r~)", []ref.Val{sv("ab"), iv(21)}},
		{"~#[0~;1~;2~:;many~]~a~a", ints(1, 2)},
		{"~a~:*~s~*", []ref.Val{sv("x"), iv(0)}},
		{"~?", []ref.Val{sv("{~a}"), lv(iv(5))}},
		{"~@?~a", []ref.Val{sv("{~a}"), iv(5), iv(6)}},
		{"~{~?~}", []ref.Val{lv(sv("(~a)"), lv(iv(1)), sv("[~a~a]"), lv(ints(2, 3)...))}},
		{"~5,'.d|~10a|~s", []ref.Val{iv(7), sv("pad"), sv("q")}},
		{"~%~2~~a", ints(1)},
	}
	for _, sb := range subs {
		c := sv(sb.txt)
		add("~?|~a", c, lv(sb.args...), iv(9))
		add("~@?|~a", append(append([]ref.Val{c}, sb.args...), iv(9))...)
		add("~{~?~}|~a", lv(c, lv(sb.args...), c, lv(sb.args...)), iv(9))
		add("~:{~@?-~}|~a", lv(lv(append([]ref.Val{c}, sb.args...)...), lv(append([]ref.Val{c}, sb.args...)...)), iv(9))
		add("~(~?~)|~a", c, lv(sb.args...), iv(9))
		add("~[k~;~@?~]|~a", append(append([]ref.Val{iv(1), c}, sb.args...), iv(9))...)
		add("~@[~*~?~]|~a", iv(1), c, lv(sb.args...), iv(9))
		add("~?|~a", sv("~?"), lv(c, lv(sb.args...)), iv(9))
	}

	// 26. ~A / ~S of every object kind, tied to princ / prin1
	for _, src := range objectSources {
		o := ov(src)
		add("~a|~s", o, o)
		add("~12a|~12@a|~:a", o, o, o)
		add("~12s|~12@s|~:@s", o, o, o)
		add("~,,2,'.a|~3,2s", o, o)
		add("~{~a ~s ~}", lv(o, o, o, o))
		add("~a", lv(o, iv(1), sv("s")))
		add("~s", lv(lv(o), o))
		add("~(~a~)|~:@(~s~)", o, o)
		add("~@[~a~]|~:[n~;y~]", o, o)
		add("~a~:*~s~p", o)
	}
}
