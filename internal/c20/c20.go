// Package c20 monitors REPL persistence (history, stash, settings) across
// restarts and across simulated process deaths at every file-system step.
//
// Every session runs in a fresh process of the worker binary ("-sub c20sess")
// against a scratch configuration directory, through the exported API
// (repl.History, repl.Stash, repl.SetConfigDir + setq in the REPL scope). A
// session first dumps what it loaded; that dump is what the monitor judges
// against a reference history model.
package c20

import (
	"encoding/json"
	"fmt"
	"math/rand/v2"
	"os"
	"os/exec"
	"path/filepath"
	"strings"
	"time"

	"github.com/ohler55/slip"
	"github.com/ohler55/slip/pkg/repl"

	"verif/internal/fw"
	"verif/internal/sl"
)

// Op is one REPL-level operation.
type Op struct {
	Kind string `json:"k"` // add | readd | clear | limit | sadd | sclear | setq
	// readd: what the editor does when an entry is recalled, edited and entered:
	// the A-th most recent entry is detached with Form.Dup, one rune of the
	// copy (selected by B and P) is replaced in place by Ch, the copy is added.
	Form []string `json:"f,omitempty"` // lines of the entered form
	A    int      `json:"a,omitempty"`
	B    int      `json:"b,omitempty"`
	P    int      `json:"p,omitempty"`
	Ch   string   `json:"ch,omitempty"`
	Var  string   `json:"var,omitempty"`
	Val  string   `json:"val,omitempty"`
	// Spell (setq only): how the user typed the assignment: "" (setq *v* x),
	// "upper" (setq *V* x), "cap" (setq *Print-Base* x), "setf" (setf *v* x).
	Spell string `json:"spell,omitempty"`
	// clear, sclear: "lisp" = through the REPL's own functions, (clear-history :start A :end B)
	// and (clear-stash ...), which reach the embedded Stash.Clear of the history
	Via string `json:"via,omitempty"`
}

// editRunes replaces, in place, one non-blank rune of the form selected by
// (b, p) with ch. Implementation side and model side use the same function
// (the model on its own copy of the text).
func editRunes(f [][]rune, b, p int, ch rune) {
	type at struct{ l, i int }
	var spots []at
	for l, line := range f {
		for i, r := range line {
			if r != ' ' && r != '\t' {
				spots = append(spots, at{l, i})
			}
		}
	}
	if len(spots) == 0 {
		return
	}
	sp := spots[(b*31+p)%len(spots)]
	f[sp.l][sp.i] = ch
}

func editLines(lines []string, b, p int, ch rune) []string {
	f := make([][]rune, len(lines))
	for i, l := range lines {
		f[i] = []rune(l)
	}
	editRunes(f, b, p, ch)
	out := make([]string, len(f))
	for i, l := range f {
		out[i] = string(l)
	}
	return out
}

// resolve turns a readd into the add it amounts to, given the entry the
// implementation handed out.
func resolve(op Op, oo opOut) Op {
	if op.Kind != "readd" {
		return op
	}
	if oo.Recalled == nil {
		return Op{Kind: "nop"}
	}
	return Op{Kind: "add", Form: editLines(oo.Recalled, op.B, op.P, []rune(op.Ch)[0])}
}

// Case is a sequence of sessions; the process is restarted between sessions.
type Case struct {
	Limit    int    `json:"limit"`
	Sessions [][]Op `json:"sessions"`
	// Crash: enumerate a process death at every file-system step of every
	// session (each followed by recovery, Follow ops and another restart).
	Crash  bool `json:"crash"`
	Follow []Op `json:"follow,omitempty"`
	// Stride samples the crash points (1 = every point).
	Stride int `json:"stride,omitempty"`
	// Strace: additionally kill the session with strace at the N-th open/write/rename
	// system call on the persistence files (independent of the hooks).
	Strace bool `json:"strace,omitempty"`
}

// ---------- the session sub-process ----------

type sessIn struct {
	Dir     string `json:"dir"`
	Limit   int    `json:"limit"`
	Ops     []Op   `json:"ops"`
	CrashAt int    `json:"crash_at"` // 1-based crash point to die at; 0 = never
	// Progress: file that receives the index of each operation before it starts
	Progress string `json:"progress,omitempty"`
	Vars     []string
}

type opOut struct {
	Points  int    `json:"points"` // crash points passed before this op started
	Size    int    `json:"size"`   // history size before the op
	SSize   int    `json:"ssize"`  // stash size before the op
	Err     string `json:"err,omitempty"`
	PointsN []string
	// Recalled: the entry a readd was handed (before the edit)
	Recalled []string `json:"recalled,omitempty"`
}

type sessOut struct {
	History [][]string        `json:"history"`
	Stash   [][]string        `json:"stash"`
	Vars    map[string]string `json:"vars"`
	LoadErr string            `json:"load_err,omitempty"`
	Ops     []opOut           `json:"ops"`
	Points  int               `json:"points"`
	Names   []string          `json:"names"`
	Done    bool              `json:"done"`
}

var settingVars = []string{"*print-base*", "*print-right-margin*", "*print-radix*", "*print-length*"}

func formOf(lines []string) repl.Form {
	var f repl.Form
	for _, l := range lines {
		f = append(f, []rune(l))
	}
	return f
}

func linesOf(f repl.Form) []string {
	out := make([]string, len(f))
	for i, l := range f {
		out[i] = string(l)
	}
	return out
}

// spellSetq is the text of a setting change as the user typed it.
func spellSetq(op Op) string {
	switch op.Spell {
	case "upper":
		return fmt.Sprintf("(SETQ %s %s)", strings.ToUpper(op.Var), op.Val)
	case "cap":
		v := []byte(op.Var)
		up := true
		for i, c := range v {
			if up && 'a' <= c && c <= 'z' {
				v[i] = c - 32
			}
			up = c == '-' || c == '*'
		}
		return fmt.Sprintf("(setq %s %s)", v, op.Val)
	case "setf":
		return fmt.Sprintf("(setf %s %s)", op.Var, op.Val)
	}
	return fmt.Sprintf("(setq %s %s)", op.Var, op.Val)
}

// lispClear evaluates (clear-history ...) / (clear-stash ...) in the REPL scope the way a
// user types it.
func lispClear(fn string, a, b int) {
	src := "(" + fn
	if a != 0 {
		src += fmt.Sprintf(" :start %d", a)
	}
	if 0 <= b {
		src += fmt.Sprintf(" :end %d", b)
	}
	src += ")"
	slip.ReadString(src, repl.Scope()).Eval(repl.Scope(), nil)
}

func sessMain(args []string) int {
	if len(args) != 2 {
		return 2
	}
	data, err := os.ReadFile(args[0])
	if err != nil {
		return 2
	}
	var in sessIn
	if json.Unmarshal(data, &in) != nil {
		return 2
	}
	out := sessOut{Vars: map[string]string{}}
	write := func() {
		b, _ := json.Marshal(&out)
		tmp := args[1] + ".tmp"
		_ = os.WriteFile(tmp, b, 0o644)
		_ = os.Rename(tmp, args[1])
	}
	// the globals the REPL itself uses: the Lisp-level functions act on them
	h := &repl.TheHistory
	st := &repl.TheStash
	if e := sl.Catch(func() {
		h.SetLimit(in.Limit)
		h.Load(filepath.Join(in.Dir, "history"))
		st.LoadExpanded(filepath.Join(in.Dir, "stash.lisp"))
		repl.SetConfigDir(in.Dir)
	}); e != nil {
		out.LoadErr = e.String()
	}
	for i := h.Size() - 1; 0 <= i; i-- {
		out.History = append(out.History, linesOf(h.Nth(i)))
	}
	for i := st.Size() - 1; 0 <= i; i-- {
		out.Stash = append(out.Stash, linesOf(st.Nth(i)))
	}
	for _, v := range settingVars {
		var val slip.Object
		if e := sl.Catch(func() { val = repl.Scope().Get(slip.Symbol(v)) }); e == nil {
			out.Vars[v] = sl.Show(val)
		}
	}
	write()
	points := 0
	repl.VerifCrashHook = func(name string) {
		points++
		out.Names = append(out.Names, name)
		if in.CrashAt == points {
			os.Exit(137) // process death: no deferred close, no flush
		}
	}
	for oi, op := range in.Ops {
		if in.Progress != "" {
			_ = os.WriteFile(in.Progress, []byte(fmt.Sprint(oi)), 0o644)
		}
		oo := opOut{Points: points, Size: h.Size(), SSize: st.Size()}
		if e := sl.Catch(func() {
			switch op.Kind {
			case "add":
				h.Add(formOf(op.Form))
			case "readd":
				if 0 < h.Size() {
					work := h.Nth(op.A % h.Size()).Dup()
					oo.Recalled = linesOf(work)
					editRunes(work, op.B, op.P, []rune(op.Ch)[0])
					h.Add(work)
				}
			case "clear":
				if op.Via == "lisp" {
					lispClear("clear-history", op.A, op.B)
				} else {
					h.Clear(op.A, op.B)
				}
			case "limit":
				h.SetLimit(op.A)
			case "sadd":
				st.Add(formOf(op.Form))
			case "sclear":
				if op.Via == "lisp" {
					lispClear("clear-stash", op.A, op.B)
				} else {
					st.Clear(op.A, op.B)
				}
			case "setq":
				code := slip.ReadString(spellSetq(op), repl.Scope())
				code.Eval(repl.Scope(), nil)
			}
		}); e != nil {
			oo.Err = e.String()
		}
		out.Ops = append(out.Ops, oo)
	}
	out.Points = points
	out.Done = true
	write()
	return 0
}

// ---------- generation ----------

var atoms = []string{"x", "foo", "(car lst)", "\"a b\"", "42", "'sym", "\"tab\\there\"", "\"naïve ∑ 日本\"", ":key", "(+ 1 2)", "\"  padded  \""}

func genForm(r *rand.Rand, odd bool) []string {
	n := 1
	if r.IntN(3) == 0 {
		n = 2 + r.IntN(3)
	}
	lines := make([]string, n)
	id := fmt.Sprintf("f%d", r.IntN(100000))
	for i := range lines {
		var sb strings.Builder
		if i == 0 {
			sb.WriteString("(" + id)
		} else {
			sb.WriteString("  ")
		}
		for k := r.IntN(3) + 1; 0 < k; k-- {
			sb.WriteString(" " + fw.Pick(r, atoms))
		}
		if r.IntN(12) == 0 {
			// a long string: lines and files that cross the 4096-byte buffer of
			// the loader's line reader at arbitrary offsets; position-dependent
			// content so that a shifted or repeated block is visible
			n := []int{100, 1000, 4000 + r.IntN(200), 8100 + r.IntN(200), r.IntN(6000)}[r.IntN(5)]
			sb.WriteString(" \"")
			for j := 0; sb.Len() < n; j++ {
				fmt.Fprintf(&sb, "%d.", j)
			}
			sb.WriteString("\"")
		}
		if i == n-1 {
			sb.WriteString(")")
		}
		lines[i] = sb.String()
	}
	if odd {
		switch r.IntN(4) {
		case 0: // leading blanks on the first line
			lines[0] = "  " + lines[0]
		case 1: // trailing blanks on the last line
			lines[n-1] += "  "
		case 2: // a literal tab inside a line (inside a string)
			lines[r.IntN(n)] += " \"q\tq\""
			if n == 1 {
				lines[0] = strings.TrimSuffix(strings.Replace(lines[0], ") \"q\tq\"", " \"q\tq\")", 1), "")
			}
		case 3: // an empty line in the middle of a multi-line form
			if 2 < n {
				lines[1] = ""
			}
		}
	}
	if 1 < n && r.IntN(3) == 0 {
		// a line comment on a line that is not the last one of the form (what a
		// stashed or recalled definition usually has)
		k := r.IntN(n - 1)
		switch r.IntN(3) {
		case 0:
			lines[k] += " ; note"
		case 1:
			lines[k] += " ;; closes ) and \"opens"
		default:
			lines = append(lines[:k+1], append([]string{"  ;; a line of its own"}, lines[k+1:]...)...)
		}
	}
	return lines
}

func genOps(r *rand.Rand, n int, limit int, oddPct int, withClear bool) []Op {
	var ops []Op
	var last []string
	for len(ops) < n {
		k := r.IntN(100)
		switch {
		case k < 62:
			f := genForm(r, r.IntN(100) < oddPct)
			if last != nil && r.IntN(8) == 0 {
				f = last // consecutive duplicate
			}
			last = f
			if r.IntN(5) == 0 {
				// recall an entry, edit one rune in place, enter it
				ops = append(ops, Op{Kind: "readd", A: []int{0, 0, 1, 2, 3, 5, 8}[r.IntN(7)], B: r.IntN(1000), P: r.IntN(1000), Ch: string("0123456789abcdefXYZ"[r.IntN(19)])})
				last = nil
				continue
			}
			ops = append(ops, Op{Kind: "add", Form: f})
		case k < 70 && withClear:
			a, b := 0, -1
			if r.IntN(2) == 0 { // a range counted from the most recent entry
				a = r.IntN(4)
				b = a + r.IntN(4)
				if r.IntN(4) == 0 {
					b = -1
				}
			}
			ops = append(ops, Op{Kind: "clear", A: a, B: b, Via: []string{"", "lisp"}[r.IntN(2)]})
		case k < 75:
			nl := limit/2 + r.IntN(limit+1)
			if nl < 2 {
				nl = 2
			}
			ops = append(ops, Op{Kind: "limit", A: nl})
		case k < 88:
			ops = append(ops, Op{Kind: "sadd", Form: genForm(r, r.IntN(100) < oddPct)})
		case k < 91 && withClear:
			a, b := 0, -1
			if r.IntN(2) == 0 {
				a = r.IntN(3)
				b = a + r.IntN(3)
			}
			ops = append(ops, Op{Kind: "sclear", A: a, B: b, Via: []string{"", "lisp"}[r.IntN(2)]})
		default:
			v := fw.Pick(r, settingVars)
			val := fmt.Sprint(2 + r.IntN(35))
			switch v {
			case "*print-radix*":
				val = fw.Pick(r, []string{"t", "nil"})
			case "*print-right-margin*", "*print-length*":
				val = fmt.Sprint(20 + r.IntN(180))
			}
			ops = append(ops, Op{Kind: "setq", Var: v, Val: val, Spell: []string{"", "", "", "upper", "cap", "setf"}[r.IntN(6)]})
		}
	}
	return ops
}

func nCases(tier string) int {
	if tier == "thorough" {
		return 320
	}
	return 56
}

func gen(r *rand.Rand, i int, tier string) Case {
	c := Case{Limit: 4 + r.IntN(8)}
	if i%3 == 0 {
		c.Limit = 10 + r.IntN(15) // limits where the 110% threshold leaves room between compactions
	}
	if i%16 == 0 {
		// stash-editing scenario: definitions (mostly multi-line, many with inner
		// line comments) are stashed, a later session removes some of them with a
		// partial clear - which rewrites the file in the one-line-per-form
		// encoding - and stashes more, so that following restarts load a file that
		// mixes both encodings.
		multi := func() []string {
			for {
				if f := genForm(r, false); 1 < len(f) || r.IntN(3) == 0 {
					return f
				}
			}
		}
		sadds := func(n int) []Op {
			var ops []Op
			for k := 0; k < n; k++ {
				ops = append(ops, Op{Kind: "sadd", Form: multi()})
				if r.IntN(3) == 0 {
					ops = append(ops, Op{Kind: "add", Form: genForm(r, false)})
				}
			}
			return ops
		}
		partial := func() Op {
			a := r.IntN(3)
			return Op{Kind: "sclear", A: a, B: a + r.IntN(2), Via: []string{"", "lisp"}[r.IntN(2)]}
		}
		c.Sessions = append(c.Sessions, sadds(4+r.IntN(4)))
		c.Sessions = append(c.Sessions, append([]Op{partial()}, sadds(r.IntN(3))...))
		c.Sessions = append(c.Sessions, sadds(1+r.IntN(3)))
		c.Sessions = append(c.Sessions, append(append(sadds(r.IntN(2)), partial()), Op{Kind: "add", Form: genForm(r, false)}))
		c.Sessions = append(c.Sessions, sadds(1))
		return c
	}
	if i%8 == 4 {
		// limit-change scenario: a long history under a generous limit, then the
		// limit is lowered below the current size (to 20 or more, where the 110%
		// threshold leaves room for appends), one to a few adds, restart; enough
		// adds for a compaction, restart; the limit raised again, adds, restart.
		// Whatever the implementation trims in memory, a restart may never load
		// more than the bound of the limit in force when the last add happened.
		l0 := 40 + r.IntN(60)
		c.Limit = l0
		adds := func(n int) []Op {
			var ops []Op
			for k := 0; k < n; k++ {
				ops = append(ops, Op{Kind: "add", Form: genForm(r, false)})
			}
			return ops
		}
		n0 := 30 + r.IntN(l0-30)
		l1 := 20 + r.IntN(n0-24)
		c.Sessions = append(c.Sessions, adds(n0))
		second := []Op{{Kind: "limit", A: l1}}
		if r.IntN(4) != 0 {
			second = append(second, adds(1+r.IntN(max(l1/10-1, 1)))...)
		}
		c.Sessions = append(c.Sessions, second)
		if r.IntN(2) == 0 { // lowered again in the same session as the adds that follow
			l2 := 20 + r.IntN(max(l1-20, 1))
			c.Sessions = append(c.Sessions, append(append(adds(r.IntN(3)), Op{Kind: "limit", A: l2}), adds(1)...))
			l1 = l2
		}
		c.Sessions = append(c.Sessions, adds(l1/10+3))
		c.Sessions = append(c.Sessions, append([]Op{{Kind: "limit", A: l1 + 10 + r.IntN(30)}}, adds(5+r.IntN(10))...))
		return c
	}
	crash := i%2 == 1
	c.Crash = crash
	odd := 0
	if i%8 == 6 || i%8 == 2 { // the "dirty" minority (restart-only cases) keeps the constructs with listed findings
		odd = 30
	}
	withClear := i%4 >= 2 || i%8 == 5 || i%16 == 8
	total := 20 + r.IntN(41) // <= 60 ops
	if crash {
		total = 14 + r.IntN(14)
	}
	ns := 2 + r.IntN(5)
	for s := 0; s < ns; s++ {
		n := total / ns
		if n < 1 {
			n = 1
		}
		c.Sessions = append(c.Sessions, genOps(r, n, c.Limit, odd, withClear))
	}
	if crash {
		c.Follow = genOps(r, 5+c.Limit, c.Limit, 0, false)
		for k := range c.Follow { // follow-up is adds only, enough to force a compaction
			if c.Follow[k].Kind != "add" && c.Follow[k].Kind != "readd" {
				c.Follow[k] = Op{Kind: "add", Form: genForm(r, false)}
			}
		}
		c.Stride = 1
		if tier == "quick" && i%4 == 3 {
			c.Stride = 2
		}
		c.Strace = i%16 == 1 || (tier == "thorough" && i%4 == 1)
	}
	return c
}

// ---------- the reference model ----------

type model struct {
	limit int
	live  [][]string // every live entry, oldest first (never compacted)
	// lo..hi bound the number of entries a restart may load: an effective add
	// under limit L keeps at least min(lo+1, L) and at most min(hi+1, L+L/10+1)
	// entries (compaction at 110% trims to L); a clear removes what it removes.
	lo, hi int
	taint  string // set once an operation with a listed finding was applied (dirty stream)
	stash  [][]string
	vars   map[string]string
}

func eqForm(a, b []string) bool {
	if len(a) != len(b) {
		return false
	}
	for i := range a {
		if a[i] != b[i] {
			return false
		}
	}
	return true
}

func emptyForm(f []string) bool {
	for _, l := range f {
		if strings.Trim(l, " ") != "" {
			return false
		}
	}
	return true
}

// apply steps the model; size is the in-memory size the implementation
// reported before the op (needed to translate clear indices, which count from
// the oldest entry the implementation still holds).
func (m *model) apply(op Op, size, ssize int) {
	switch op.Kind {
	case "add":
		if m.limit <= 0 || emptyForm(op.Form) {
			return
		}
		if 0 < len(m.live) && eqForm(m.live[len(m.live)-1], op.Form) {
			return
		}
		m.live = append(m.live, op.Form)
		m.lo = min(m.lo+1, m.limit)
		m.hi = min(m.hi+1, m.limit+m.limit/10+1)
	case "limit":
		m.limit = op.A
	case "clear":
		n := len(m.live)
		m.live = clearRange(m.live, size, op.A, op.B)
		r := n - len(m.live)
		m.lo = max(m.lo-r, 0)
		m.hi = max(m.hi-r, 0)
	case "sadd":
		if emptyForm(op.Form) {
			return
		}
		if 0 < len(m.stash) && eqForm(m.stash[len(m.stash)-1], op.Form) {
			return
		}
		m.stash = append(m.stash, op.Form)
	case "sclear":
		m.stash = clearRange(m.stash, ssize, op.A, op.B)
	case "setq":
		m.vars[op.Var] = op.Val
	}
}

// clearRange removes entries start..end (inclusive) where index 0 is the most
// recent of the `held` entries the implementation holds (the numbering of
// nth-history, and what the repository's own test of Clear pins); end<0 =
// through the oldest.
func clearRange(live [][]string, held, start, end int) [][]string {
	if len(live) < held {
		held = len(live)
	}
	if held == 0 || held <= start {
		return live
	}
	if start < 0 {
		start = 0
	}
	if end < 0 || held <= end {
		end = held - 1
	}
	if end < start {
		return live
	}
	n := len(live)
	out := append([][]string{}, live[:n-1-end]...)
	return append(out, live[n-start:]...)
}

// isView tells whether got is an admissible restart view of the model: the
// most recent live entries, in order, between m.lo and m.hi of them.
func isView(got [][]string, m *model) (bool, string) {
	live := m.live
	if len(live) < len(got) {
		return false, fmt.Sprintf("loaded %d entries, only %d were entered and still live", len(got), len(live))
	}
	off := len(live) - len(got)
	for i := range got {
		if !eqForm(got[i], live[off+i]) {
			return false, fmt.Sprintf("entry %d from the oldest loaded differs: loaded %q, entered %q", i, got[i], live[off+i])
		}
	}
	if len(got) < m.lo {
		return false, fmt.Sprintf("only %d entries loaded; at least %d of the %d live entries must be kept (limit %d)", len(got), m.lo, len(live), m.limit)
	}
	if m.hi < len(got) {
		return false, fmt.Sprintf("%d entries loaded, more than the bound %d (limit %d)", len(got), m.hi, m.limit)
	}
	return true, ""
}

// formMismatch names the way a loaded form differs from the entered one when it
// is one of the listed encoding losses, "" otherwise.
func formMismatch(got, want []string) string {
	join := func(f []string, sep string) string { return strings.Join(f, sep) }
	switch {
	case strings.Contains(join(want, "\n"), "\t") && join(got, "\t") == join(want, "\t"):
		return "tab-in-line"
	case strings.TrimSpace(join(got, "\n")) == strings.TrimSpace(join(want, "\n")):
		return "blank-trim"
	case strings.ReplaceAll(join(got, "\n"), "\n\n", "\n") == strings.ReplaceAll(join(want, "\n"), "\n\n", "\n"):
		return "empty-line"
	}
	return ""
}

// mismatchKind classifies why a loaded history is not a view, for the signature.
func mismatchKind(got, live [][]string) string {
	if len(got) <= len(live) {
		off := len(live) - len(got)
		for i := range got {
			if eqForm(got[i], live[off+i]) {
				continue
			}
			if k := formMismatch(got[i], live[off+i]); k != "" {
				return k
			}
			break
		}
	}
	seen := map[string]int{}
	for _, f := range got {
		seen[strings.Join(f, "\n")]++
	}
	liveSet := map[string]int{}
	for _, f := range live {
		liveSet[strings.Join(f, "\n")]++
	}
	for k, n := range seen {
		if liveSet[k] == 0 {
			return "unknown-or-resurrected-entry"
		}
		if liveSet[k] < n {
			return "duplicated-entry"
		}
	}
	if len(live) < len(got) {
		return "duplicated-entry"
	}
	isSuffix := true
	off := len(live) - len(got)
	for i := range got {
		if !eqForm(got[i], live[off+i]) {
			isSuffix = false
		}
	}
	if isSuffix {
		return "count-out-of-bounds"
	}
	return "order-or-loss"
}

// ---------- execution ----------

type runner struct {
	x    *fw.Ctx
	root string
	n    int
	// timedOut: a session process exceeded its wall-clock limit twice (a loaded machine, not
	// the property): whatever the case reports afterwards is inconclusive, not a violation
	timedOut bool
}

// fail reports a violation unless a session of this case ran into the wall-clock limit.
func (rn *runner) fail(sig, format string, a ...any) {
	if rn.timedOut {
		rn.x.Cover("inconclusive:a session process exceeded its wall-clock limit (machine load), not judged: " + sig)
		rn.x.Trivial()
		return
	}
	rn.x.Fail(sig, format, a...)
}

func (rn *runner) session(dir string, limit int, ops []Op, crashAt int) (*sessOut, fw.SubResult) {
	rn.n++
	inf := filepath.Join(rn.root, fmt.Sprintf("in-%d.json", rn.n))
	outf := filepath.Join(rn.root, fmt.Sprintf("out-%d.json", rn.n))
	b, _ := json.Marshal(sessIn{Dir: dir, Limit: limit, Ops: ops, CrashAt: crashAt})
	_ = os.WriteFile(inf, b, 0o644)
	res := fw.RunSub("c20sess", []string{inf, outf}, []string{"HOME=" + filepath.Join(rn.root, "home")}, rn.root, 120*time.Second)
	if res.TimedOut {
		// the process was killed by the harness at an arbitrary point: nothing the case
		// observes afterwards speaks about the property
		rn.timedOut = true
	}
	var so sessOut
	data, err := os.ReadFile(outf)
	_ = os.Remove(inf)
	_ = os.Remove(outf)
	if err != nil || json.Unmarshal(data, &so) != nil {
		return nil, res
	}
	return &so, res
}

var straceState int // 0 unknown, 1 available, 2 not

func straceOK() bool {
	if straceState == 0 {
		straceState = 2
		if _, err := exec.LookPath("strace"); err == nil {
			straceState = 1
		}
	}
	return straceState == 1
}

// straceSession runs a session under strace, which sends SIGKILL at the n-th
// system call of the given kind that touches one of the persistence files.
// It returns the operation that was running and whether the process was killed.
func (rn *runner) straceSession(dir string, limit int, ops []Op, sys string, n int) (opi int, killed bool) {
	rn.n++
	inf := filepath.Join(rn.root, fmt.Sprintf("in-%d.json", rn.n))
	outf := filepath.Join(rn.root, fmt.Sprintf("out-%d.json", rn.n))
	prog := filepath.Join(rn.root, fmt.Sprintf("prog-%d", rn.n))
	b, _ := json.Marshal(sessIn{Dir: dir, Limit: limit, Ops: ops, Progress: prog})
	_ = os.WriteFile(inf, b, 0o644)
	exe, _ := os.Executable()
	args := []string{"-f", "-o", "/dev/null", "-e", "trace=openat,write,pwrite64,writev,rename,renameat,renameat2,unlink,unlinkat,truncate,ftruncate,link,linkat"}
	for _, f := range []string{"history", "history.tmp", "stash.lisp", "config.lisp"} {
		args = append(args, "-P", filepath.Join(dir, f))
	}
	args = append(args, "-e", fmt.Sprintf("inject=%s:signal=SIGKILL:when=%d", sys, n), exe, "-sub", "c20sess", inf, outf)
	cmd := exec.Command("strace", args...)
	cmd.Dir = rn.root
	cmd.Env = append(os.Environ(), "HOME="+filepath.Join(rn.root, "home"), "GOMAXPROCS=1")
	err := cmd.Run()
	opi = -1
	if pb, e2 := os.ReadFile(prog); e2 == nil {
		fmt.Sscan(string(pb), &opi)
	}
	_ = os.Remove(inf)
	_ = os.Remove(outf)
	_ = os.Remove(prog)
	return opi, err != nil
}

func copyDir(src, dst string) {
	_ = os.MkdirAll(dst, 0o755)
	ents, _ := os.ReadDir(src)
	for _, e := range ents {
		if e.IsDir() {
			continue
		}
		b, err := os.ReadFile(filepath.Join(src, e.Name()))
		if err == nil {
			_ = os.WriteFile(filepath.Join(dst, e.Name()), b, 0o644)
		}
	}
}

func cloneModel(m *model) *model {
	c := &model{limit: m.limit, lo: m.lo, hi: m.hi, taint: m.taint, vars: map[string]string{}}
	c.live = append(c.live, m.live...)
	c.stash = append(c.stash, m.stash...)
	for k, v := range m.vars {
		c.vars[k] = v
	}
	return c
}

func hasOdd(fs [][]string) string {
	for _, f := range fs {
		for i, l := range f {
			switch {
			case strings.Contains(l, "\t"):
				return "tab-in-line"
			case l == "":
				return "empty-line"
			case (i == 0 && strings.HasPrefix(l, " ")) || (i == len(f)-1 && strings.HasSuffix(l, " ")):
				return "blank-trim"
			}
		}
	}
	return ""
}

func execCase(x *fw.Ctx, c Case) {
	root := os.Getenv("VERIF_WORKDIR")
	if root == "" {
		root = os.TempDir()
	}
	root, err := os.MkdirTemp(root, "c20-")
	if err != nil {
		x.Fail("harness-io", "%v", err)
		return
	}
	defer os.RemoveAll(root)
	_ = os.MkdirAll(filepath.Join(root, "home"), 0o755)
	rn := &runner{x: x, root: root}
	dir := filepath.Join(root, "cfg")
	_ = os.MkdirAll(dir, 0o755)
	m := &model{limit: c.Limit, vars: map[string]string{}}
	obs := map[string]any{}
	x.Observe(obs)
	nsess := 0
	// check what a fresh process loads against the model
	check := func(so *sessOut, m *model, stage, sigPrefix string) bool {
		ok := true
		if so.LoadErr != "" {
			rn.fail(sigPrefix+" fail=load-error", "%s: loading the directory failed: %s", stage, so.LoadErr)
			return false
		}
		if good, why := isView(so.History, m); !good {
			kind := mismatchKind(so.History, m.live)
			if m.taint != "" {
				kind = m.taint
			}
			rn.fail(sigPrefix+" what=history fail="+kind, "%s: history is not the most recent entered forms: %s", stage, why)
			ok = false
		}
		if len(so.Stash) != len(m.stash) {
			rn.fail(sigPrefix+" what=stash fail=count"+m.taint, "%s: stash has %d forms, %d were stashed: %q vs %q", stage, len(so.Stash), len(m.stash), so.Stash, m.stash)
			ok = false
		} else {
			for i := range m.stash {
				if !eqForm(so.Stash[i], m.stash[i]) {
					kind := formMismatch(so.Stash[i], m.stash[i])
					if kind == "" {
						kind = "content"
					}
					rn.fail(sigPrefix+" what=stash fail="+kind, "%s: stash form %d is %q, stashed %q", stage, i, so.Stash[i], m.stash[i])
					ok = false
					break
				}
			}
		}
		x.Cover("restart-checks")
		x.CoverN("history-entries-compared", len(so.History))
		return ok
	}
	checkVars := func(so *sessOut, m *model, stage, sigPrefix string) {
		for k, want := range m.vars {
			if so.Vars[k] != want {
				rn.fail(sigPrefix+" what=settings fail=value var="+k, "%s: %s is %s after restart, last set to %s", stage, k, so.Vars[k], want)
			}
			x.Cover("settings-compared")
		}
	}
	for si, ops := range c.Sessions {
		pre := filepath.Join(root, fmt.Sprintf("pre-%d", si))
		if c.Crash {
			copyDir(dir, pre)
		}
		preModel := cloneModel(m)
		so, res := rn.session(dir, m.limit, ops, 0)
		nsess++
		if so == nil || !so.Done {
			rn.fail("restart fail=session-died", "session %d died: exit=%d %s", si, res.Exit, trunc(string(res.Stderr), 400))
			return
		}
		stage := fmt.Sprintf("restart before session %d", si)
		if x.Replay {
			fmt.Printf("session %d loaded history=%q\n   model live=%q lo=%d hi=%d limit=%d\n", si, so.History, m.live, m.lo, m.hi, m.limit)
		}
		if !check(so, m, stage, "restart") {
			return // the model no longer tracks the files
		}
		checkVars(so, m, stage, "restart")
		for oi, op := range ops {
			if so.Ops[oi].Err != "" {
				rn.fail("op-error kind="+op.Kind, "session %d op %d %v failed: %s", si, oi, op, so.Ops[oi].Err)
				return
			}
			if op.Kind == "readd" && 0 < so.Ops[oi].Size {
				// what recall hands out must be the entry that was entered
				k := op.A % so.Ops[oi].Size
				if k < len(m.live) && m.taint == "" && !eqForm(so.Ops[oi].Recalled, m.live[len(m.live)-1-k]) {
					rn.fail("restart what=recall fail=differs", "session %d op %d: the %d-th most recent entry was handed out as %q, entered was %q", si, oi, k, so.Ops[oi].Recalled, m.live[len(m.live)-1-k])
					return
				}
				x.Cover("recalled-entries-compared")
			}
			m.apply(resolve(op, so.Ops[oi]), so.Ops[oi].Size, so.Ops[oi].SSize)
			x.Cover("op:" + op.Kind)
		}
		if k := hasOdd(m.live); k != "" {
			x.Cover("dirty:" + k)
		}
		if !c.Crash {
			continue
		}
		// --- crash enumeration for this session ---
		stride := c.Stride
		if stride < 1 {
			stride = 1
		}
		// judge what a fresh process finds after a death that fell into op opi
		judge := func(cdir, name string, opi int) {
			// model states just before and just after the op the crash fell into
			before := cloneModel(preModel)
			for k := 0; k < opi; k++ {
				before.apply(resolve(ops[k], so.Ops[k]), so.Ops[k].Size, so.Ops[k].SSize)
			}
			after := cloneModel(before)
			after.apply(resolve(ops[opi], so.Ops[opi]), so.Ops[opi].Size, so.Ops[opi].SSize)
			// recovery: a fresh process loads the directory
			rso, _ := rn.session(cdir, after.limit, nil, 0)
			sigp := fmt.Sprintf("crash op=%s point=%s", ops[opi].Kind, name)
			if rso == nil || !rso.Done {
				rn.fail(sigp+" fail=recovery-died", "after a death at %s the next session failed: %v", name, rso)
				_ = os.RemoveAll(cdir)
				return
			}
			if rso.LoadErr != "" {
				rn.fail(sigp+" fail=load-error", "after a death at %s loading failed: %s", name, rso.LoadErr)
				_ = os.RemoveAll(cdir)
				return
			}
			okB, _ := isView(rso.History, before)
			okA, whyA := isView(rso.History, after)
			// clear rewrites the file in place: a consistent prefix of the new contents is admissible
			okP := false
			if ops[opi].Kind == "clear" && !okA && !okB {
				okP = isPrefixOfView(rso.History, after.live)
			}
			var rec *model
			switch {
			case okA:
				rec = after
			case okB:
				rec = before
			case okP:
				rec = after
				x.Cover("crash-clear-prefix")
			default:
				kind := mismatchKind(rso.History, after.live)
				rn.fail(sigp+" fail="+kind, "after a death at %s (op %d %s) the loaded history is neither the state before nor after the operation: %s\nloaded: %q", name, opi, ops[opi].Kind, whyA, rso.History)
			}
			if rec != nil {
				// return from what was recovered: first exactly enough adds to
				// force ONE compaction (a leftover temporary file would be merged
				// into it), restart, then the rest of the follow-up, restart.
				rec = cloneModel(rec)
				rec.live = append([][]string{}, rso.History...)
				rec.lo, rec.hi = len(rso.History), len(rso.History)
				k1 := rec.limit + rec.limit/10 - len(rso.History)
				if k1 < 1 {
					k1 = 1
				}
				if len(c.Follow) < k1 {
					k1 = len(c.Follow)
				}
				stages := [][]Op{c.Follow[:k1], c.Follow[k1:]}
				for sti, fops := range stages {
					fso, _ := rn.session(cdir, rec.limit, fops, 0)
					if fso == nil || !fso.Done {
						rn.fail(sigp+" fail=later-session-died", "a later session after a death at %s failed", name)
						break
					}
					if sti == 1 {
						if good, why := isView(fso.History, rec); !good {
							kind := mismatchKind(fso.History, rec.live)
							rn.fail(sigp+" later fail="+kind, "after a death at %s, recovery, %d further adds (one compaction) and a restart: %s\nloaded: %q", name, k1, why, fso.History)
							break
						}
					}
					for k, op := range fops {
						rec.apply(resolve(op, fso.Ops[k]), fso.Ops[k].Size, fso.Ops[k].SSize)
					}
				}
				if !x.Failed() {
					fso, _ := rn.session(cdir, rec.limit, nil, 0)
					if fso == nil || !fso.Done {
						rn.fail(sigp+" fail=later-session-died", "the last restart after a death at %s failed", name)
					} else if good, why := isView(fso.History, rec); !good {
						kind := mismatchKind(fso.History, rec.live)
						rn.fail(sigp+" later fail="+kind, "after a death at %s, recovery, %d further adds and restarts: %s\nloaded: %q", name, len(c.Follow), why, fso.History)
					}
				}
				x.Cover("crash-recoveries-checked")
			}
		}
		x.CoverN("crash-points-discovered", so.Points)
		for p := 1; p <= so.Points; p += stride {
			name := so.Names[p-1]
			// which op does point p belong to?
			opi := 0
			for k := range so.Ops {
				if so.Ops[k].Points < p {
					opi = k
				}
			}
			cdir := filepath.Join(root, fmt.Sprintf("crash-%d-%d", si, p))
			copyDir(pre, cdir)
			cso, cres := rn.session(cdir, preModel.limit, ops, p)
			if cso == nil || cres.Exit != 137 {
				rn.fail("crash fail=harness", "armed crash %d (%s) did not kill the session: exit=%d", p, name, cres.Exit)
				_ = os.RemoveAll(cdir)
				continue
			}
			x.Cover("crash-armed:" + name)
			judge(cdir, name, opi)
			_ = os.RemoveAll(cdir)
		}
		// hook-independent cross-check: strace kills the session process at the
		// N-th open / write / rename system call on the persistence files
		if c.Strace && straceOK() {
			for _, sys := range []string{"openat", "write", "rename,renameat,renameat2", "unlink,unlinkat", "truncate,ftruncate", "pwrite64,writev", "link,linkat"} {
				for n := 1; n <= 60; n++ {
					cdir := filepath.Join(root, fmt.Sprintf("strace-%d-%s-%d", si, sys[:4], n))
					copyDir(pre, cdir)
					opi, killed := rn.straceSession(cdir, preModel.limit, ops, sys, n)
					if !killed {
						_ = os.RemoveAll(cdir)
						break
					}
					if opi < 0 || len(ops) <= opi {
						_ = os.RemoveAll(cdir)
						continue // died while loading, before any operation
					}
					x.Cover("strace-kill:" + sys[:4])
					judge(cdir, "strace:"+strings.SplitN(sys, ",", 2)[0], opi)
					_ = os.RemoveAll(cdir)
				}
			}
		}
		_ = os.RemoveAll(pre)
	}
	// final restart
	so, _ := rn.session(dir, m.limit, nil, 0)
	if so == nil || !so.Done {
		rn.fail("restart fail=session-died", "final restart died")
		return
	}
	if check(so, m, "final restart", "restart") {
		checkVars(so, m, "final restart", "restart")
	}
	obs["sessions"] = nsess
	obs["processes"] = rn.n
	obs["live_entries"] = len(m.live)
	x.CoverN("processes", rn.n)
	if c.Crash {
		x.Cover("cases:crash")
	} else {
		x.Cover("cases:restart")
	}
}

func isPrefixOfView(got, live [][]string) bool {
	// some suffix of live starts with got
	for off := 0; off <= len(live); off++ {
		if len(live)-off < len(got) {
			break
		}
		ok := true
		for i := range got {
			if !eqForm(got[i], live[off+i]) {
				ok = false
				break
			}
		}
		if ok {
			return true
		}
	}
	return len(got) == 0
}

func trunc(s string, n int) string {
	if n < len(s) {
		return s[:n]
	}
	return s
}

func init() {
	fw.RegisterSub("c20sess", sessMain)
	fw.Register(fw.Spec[Case]{
		ID:    "C20",
		Level: "fault_enumeration",
		Rule: "a case is a sequence (<= 60 ops) of History.Add/Clear/SetLimit, Stash.Add/Clear and setq of saved settings, split into 2-6 sessions with a process restart " +
			"between sessions; every session first dumps what it loaded, which is judged against a reference history model; odd-numbered cases additionally arm a process " +
			"death (os.Exit without defers) at every discovered file-system step of every session, then recover in a fresh process, add limit+5 more forms and restart again; " +
			"distinct = distinct case JSON; every case is non-trivial (>= 2 restarts)",
		N:        nCases,
		Gen:      gen,
		Exec:     execCase,
		Batch:    1,
		HangSecs: 300,
		Assumptions: []string{"process death, not power loss: data handed to the kernel by write(2) survives (no fsync reasoning)",
			"the crash points are the verif hooks placed before/after every open/write/rename in history.go, stash.go and updateConfigFile",
			"a clear is admitted to leave a consistent prefix of the new contents (it rewrites the file in place)"},
	})
}
