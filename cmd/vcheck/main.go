// Command vcheck is the driver and (with -worker) the worker of the
// runtime-monitoring checks. It is linked against /repo's working tree.
package main

import (
	"flag"
	"fmt"
	"os"
	"strconv"

	"verif/internal/fw"

	_ "verif/internal/checks"
)

func main() {
	if 2 < len(os.Args) && os.Args[1] == "-sub" {
		os.Exit(fw.SubMain(os.Args[2], os.Args[3:]))
	}
	var (
		id      = flag.String("id", "", "check id (C01..C20)")
		tier    = flag.String("tier", "quick", "quick|thorough")
		seed    = flag.Int64("seed", envSeed(), "seed (default $VERIF_SEED or 1)")
		worker  = flag.Bool("worker", false, "run as worker")
		from    = flag.Int("from", 0, "first case")
		to      = flag.Int("to", 0, "one past last case")
		out     = flag.String("out", "", "worker output file")
		cases   = flag.String("cases", "", "worker: JSON array of cases to run instead of generating")
		replay  = flag.String("replay", "", "replay file to re-execute")
		triage  = flag.Bool("triage", false, "print every distinct violating signature")
		workers = flag.Int("workers", 0, "parallel workers (default per check)")
		gen     = flag.Int("gen", -1, "print generated case i and exit")
	)
	flag.Parse()
	if *id == "" {
		fmt.Fprintln(os.Stderr, "usage: vcheck -id Cnn [-tier quick|thorough]; checks:", fw.IDs())
		os.Exit(2)
	}
	switch {
	case *worker:
		os.Exit(fw.WorkerMain(fw.WorkerOpts{ID: *id, Tier: *tier, Seed: *seed, From: *from, To: *to, Out: *out, CasesFile: *cases}))
	case *replay != "":
		os.Exit(fw.ReplayMain(*id, *replay))
	case 0 <= *gen:
		os.Exit(fw.GenMain(*id, *tier, *seed, *gen))
	default:
		root, _ := os.Getwd()
		os.Setenv("VERIF_ROOT", root)
		os.Exit(fw.DriverMain(fw.DriverOpts{ID: *id, Tier: *tier, Seed: *seed, Triage: *triage, Root: root, Workers: *workers}))
	}
}

func envSeed() int64 {
	if s := os.Getenv("VERIF_SEED"); s != "" {
		if n, err := strconv.ParseInt(s, 10, 64); err == nil {
			return n
		}
	}
	return 1
}
