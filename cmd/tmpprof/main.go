package main

import (
	"bytes"
	"fmt"
	"os"
	"runtime"
	"runtime/pprof"

	"github.com/ohler55/slip"
	_ "github.com/ohler55/slip/pkg/cl"
)

func main() {
	runtime.MemProfileRate = 4096
	s := slip.NewScope()
	slip.ReadString("(setq *read-base* 36)", s).Eval(s, nil)
	src := bytes.Repeat([]byte("a"), 1<<20)
	var m0, m1 runtime.MemStats
	runtime.ReadMemStats(&m0)
	code := slip.Read(src, s)
	runtime.ReadMemStats(&m1)
	fmt.Println(len(code), (m1.TotalAlloc-m0.TotalAlloc)>>20, "MiB")
	f, _ := os.Create("/tmp/allocs.prof")
	pprof.Lookup("allocs").WriteTo(f, 0)
	f.Close()
}
