#!/bin/bash
# usage: scripts/applybatch.sh <listfile>   — each line: <diff path>|<commit message starting with fix:>
# Applies the reviewed repairs as separate commits on a scratch worktree of /repo's HEAD, runs the unedited
# suite with the guard off ONCE on the result, and fast-forwards /repo's main to it when the stable list passes.
# A diff that does not apply or does not build is skipped (reported). On a failing suite nothing is taken over.
set -u
list="$1"
wt=/tmp/wt/fixbatch-$$
git -C /repo diff --quiet || { echo "/repo dirty"; exit 9; }
git -C /repo worktree add -q -b fixbatch-$$ "$wt" HEAD || exit 9
export GOPROXY=off; unset GOFLAGS GOSUMDB GOTOOLCHAIN GOWORK 2>/dev/null
n=0
while IFS='|' read -r d msg; do
  [ -z "$d" ] && continue
  if ! git -C "$wt" apply "$d" 2>/dev/null; then echo "SKIP (does not apply): $d"; continue; fi
  if ! (cd "$wt" && go build -mod=mod . ./pkg/... ./cmd/... > /tmp/applybatch.build.$$ 2>&1); then
    echo "SKIP (does not build): $d"; head -5 /tmp/applybatch.build.$$; git -C "$wt" checkout -q -- . ; git -C "$wt" clean -fdq; continue
  fi
  (cd "$wt" && gofmt -l $(git diff --name-only) | grep . && echo "  gofmt issue in $d")
  git -C "$wt" add -A && git -C "$wt" commit -qm "$msg" && n=$((n+1)) && echo "applied: $d"
done < "$list"
[ $n -gt 0 ] || { git -C /repo worktree remove --force "$wt"; git -C /repo branch -D fixbatch-$$ -q; echo "nothing applied"; exit 1; }
if BASELINE_QUIET=1 timeout 2400 /verif/scripts/baseline_off.sh "$wt"; then
  git -C /repo merge -q --ff-only fixbatch-$$ && echo "BATCH OK: $n commits taken over" && git -C /repo log --oneline | head -$n
  rc=0
else
  echo "BATCH FAILED: baseline does not pass with these $n commits; nothing taken over (branch fixbatch-$$ kept in $wt for bisection)"
  exit 1
fi
git -C /repo worktree remove --force "$wt"; git -C /repo branch -D fixbatch-$$ -q
exit $rc
