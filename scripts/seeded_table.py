#!/usr/bin/env python3
"""Print the markdown table of seeded changes from seeded/*/meta.json and seeded/RESULTS.json."""
import json,glob,os
root=os.path.dirname(os.path.dirname(os.path.abspath(__file__)))
res=json.load(open(os.path.join(root,'seeded','RESULTS.json')))
print('| id | change | needs | result |')
print('|---|---|---|---|')
for d in sorted(glob.glob(os.path.join(root,'seeded','C*'))):
    n=os.path.basename(d)
    try: m=json.load(open(os.path.join(d,'meta.json')))
    except Exception: m={}
    r=res.get(n,{})
    out='not run yet'
    if r: out=('caught by %s: `%s`'%(r['check'],r['signature']) if r.get('caught') else 'MISSED by %s'%r['check'])+((' — '+r['note']) if r.get('note') else '')
    print('| %s | %s | %s | %s |'%(n,str(m.get('summary','')).replace('|','\\|')[:260],str(m.get('needs','')).replace('|','\\|')[:200],out.replace('|','\\|')))
