#!/bin/bash
# usage: scripts/hidden_tests.sh [dir]
# Some test binaries of the repository abort in this sandbox at a test that cannot run here
# (TestRequireLoadPath, TestMakeApp*, ...), which hides every later test of that package from
# the baseline list. This runs those packages with the aborting tests skipped; all remaining
# tests pass on the pinned commit, so any "--- FAIL" here is caused by a change.
set -u
cd "${1:-/repo}"; export GOPROXY=off; unset GOFLAGS GOSUMDB GOTOOLCHAIN GOWORK 2>/dev/null
out=$(mktemp)
run() {
{
  go test -mod=mod -vet=off -count=1 -skip 'TestRequireLoadPath|TestRequireNotReadable' ./test/cl/
  go test -mod=mod -vet=off -count=1 -skip 'TestMakeApp|TestSnapshotRequire|TestSystem' ./test/gi/
  go test -mod=mod -vet=off -count=1 -skip 'TestHistoryAdd|TestStashAdd' ./test/repl/
  go test -mod=mod -vet=off -count=1 -skip 'TestFlavorGoMakeOnly' ./test/flavors/
  go test -mod=mod -vet=off -count=1 -skip 'TestAppRun|TestStandardInput|TestStandardOutput' ./test/
} > "$out" 2>&1
}
run
# some of these tests share /tmp/scratch with any other test run on the machine: retry once
grep -qE "^--- FAIL|^FAIL|^panic:" "$out" && run
if grep -E "^--- FAIL|^FAIL|^panic:" "$out"; then echo "hidden tests: FAILED"; rm -f "$out"; exit 1; fi
echo "hidden tests: $(grep -c '^ok' "$out") packages ok"; rm -f "$out"
