#!/usr/bin/env python3
"""usage: bookkeep.py <ID> <table.json> <run-log>...

Turns OPEN findings of findings/<ID>.json that none of the given runs re-observed
("NOTE: listed finding not re-observed in this run (sig=...)" in EVERY log) into
"fixed: property=<ID> <commit> <what failed>" entries, using a reviewed table
[[regex, commit, what], ...]. Signatures no table row matches are printed and left open.
"""
import json, re, sys, os
root = os.path.dirname(os.path.dirname(os.path.abspath(__file__)))
pid, table, logs = sys.argv[1], json.load(open(sys.argv[2])), sys.argv[3:]
stale = None
for l in logs:
    s = set()
    for line in open(l, errors='replace'):
        m = re.match(r'NOTE: listed finding not re-observed in this run \(sig=(.*)\)\s*$', line)
        if m:
            s.add(m.group(1))
    stale = s if stale is None else stale & s
p = os.path.join(root, 'findings', pid + '.json')
f = json.load(open(p))
n = 0
for e in f:
    if e['status'] != 'open' or e['signature'] not in stale:
        continue
    for rx, commit, what in table:
        if re.search(rx, e['signature']):
            e['status'] = 'fixed: property=%s %s %s' % (pid, commit, what)
            e.pop('witness', None)
            n += 1
            break
    else:
        print('LEFT OPEN (no table row):', e['signature'])
json.dump(f, open(p, 'w'), indent=1, ensure_ascii=False)
print(pid, 'stale in all logs:', len(stale), 'marked fixed:', n)
