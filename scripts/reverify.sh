#!/bin/bash
# usage: scripts/reverify.sh <ID> <diff>  — re-confirms a seeded change that was rebased onto /repo HEAD:
# scratch worktree at HEAD + diff, the stored demonstration must fail with and pass without the change,
# then the property's quick check runs against the worktree. Prints one RESULT line; removes the worktree.
set -u
id="$1"; diff="$2"; prop="${id:0:3}"; low=$(echo "$prop" | tr 'A-Z' 'a-z')
wt=/tmp/wt/rv-$id
export GOPROXY=off; unset GOFLAGS GOSUMDB GOTOOLCHAIN GOWORK 2>/dev/null
git -C /repo worktree remove --force "$wt" 2>/dev/null
git -C /repo worktree add -q --detach "$wt" HEAD || exit 9
git -C "$wt" apply "$diff" || { echo "RESULT $id diff does not apply to HEAD"; git -C /repo worktree remove --force "$wt"; exit 9; }
mkdir -p "$wt/_seeded"; cp -r "/verif/seeded/$id/demo" "$wt/_seeded/demo"
log=/tmp/reverify.$id.log; : > "$log"
demo() { (cd "$wt" && timeout 400 go test -mod=mod -vet=off -count=1 ./_seeded/demo/ >> "$log" 2>&1); }
demo; with=$?
git -C "$wt" apply -R "$diff"; demo; without=$?; git -C "$wt" apply "$diff"
cd /verif
VERIF_REPO="$wt" VCHECK_ONLY=$low ./run "$prop" quick > /tmp/reverify.$id.check.log 2>&1; rc=$?
nv=$(grep -a -c '^VIOLATION' /tmp/reverify.$id.check.log)
echo "RESULT $id demo_with=$with(want!=0) demo_without=$without(want 0) check_exit=$rc violations=$nv"
grep -a -A1 '^VIOLATION' /tmp/reverify.$id.check.log | grep -a 'sig=' | cut -c1-200 | head -3
git -C /repo worktree remove --force "$wt"; rm -rf /verif/bin/alt-*rv_${id}*
