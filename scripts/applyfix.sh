#!/bin/bash
# usage: scripts/applyfix.sh <diff> "<commit message starting with fix:>"
# Applies a reviewed repair to /repo, runs the unedited suite with hooks off, commits; reverts on failure.
set -u
d="$1"; msg="$2"
cd /repo
git diff --quiet || { echo "/repo dirty"; exit 9; }
git apply "$d" || { echo "APPLY FAILED $d"; exit 9; }
export GOFLAGS=-mod=mod GOPROXY=off
gofmt -l $(git diff --name-only) | grep . && { echo "gofmt issues"; }
if BASELINE_QUIET=1 timeout 900 /verif/scripts/baseline_off.sh; then
  git add -A && git commit -qm "$msg" && git log --oneline | head -1
else
  echo "BASELINE FAILED - reverting $d"; git checkout -- . ; git clean -fdq; exit 1
fi
