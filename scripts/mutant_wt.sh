#!/bin/bash
# usage: scripts/mutant_wt.sh <seeded-dir> <ID> [tier] — like mutant.sh but applies the seeded change to a scratch
# worktree of /repo's HEAD and links the check against it (VERIF_REPO), so /repo itself is not disturbed.
set -u
d="$(cd "$1" && pwd)"; id="$2"; tier="${3:-quick}"
low=$(echo "$id" | tr 'A-Z' 'a-z')
wt=/tmp/wt/mut-$(basename "$d")-$$
git -C /repo worktree add -q --detach "$wt" HEAD || exit 9
trap 'git -C /repo worktree remove --force "$wt"; rm -rf /verif/bin/alt-*mut_$(basename "$d")_$$*' EXIT
git -C "$wt" apply "$d/patch.diff" || { echo "patch does not apply to HEAD"; exit 8; }
cd /verif
VERIF_REPO="$wt" VCHECK_ONLY=$low ./run "$id" "$tier" > /tmp/mutant.$id.$$.log 2>&1
rc=$?
grep -a -E "^C[0-9]+ (HELD|VIOLATED|INCONCLUSIVE)|BUILD" /tmp/mutant.$id.$$.log | cut -c1-200
grep -a -A2 "^VIOLATION" /tmp/mutant.$id.$$.log | grep -v "^--" | head -12 | cut -c1-260
rm -f /tmp/mutant.$id.$$.log
echo "exit=$rc"
exit $rc
