#!/usr/bin/env python3
"""Merge findings/*.json (one reviewed list per property) into known_findings.json."""
import json,glob,os
root=os.path.dirname(os.path.dirname(os.path.abspath(__file__)))
all=[]
for f in sorted(glob.glob(os.path.join(root,'findings','*.json'))):
    all+=json.load(open(f))
tmp=os.path.join(root,'.known_findings.json.%d.tmp'%os.getpid())
json.dump(all,open(tmp,'w'),indent=1)
os.replace(tmp,os.path.join(root,'known_findings.json'))  # atomic: checks may be reading it
print(len(all),'entries')
