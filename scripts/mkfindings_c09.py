#!/usr/bin/env python3
"""Build findings/C09.json from reviewed triage candidates.

Input: the candidate files written by `VERIF_EMIT=/tmp/emit-c09/<name>.json ./run C09 <tier>`
(one per tier/seed; all are merged, the smallest witness per signature is kept).

Review recorded here:
  * every `fault=...` candidate is a Go runtime fault (index / slice bounds / nil
    dereference / failed type assertion / unhashable key / integer divide by zero /
    makeslice) that reached the caller dressed up as an `error` condition: the
    message of the condition is the text of the Go runtime error. By the
    property statement that is a genuine defect whatever the arguments were;
    the signature names the function (or format directive set / reader lead
    bytes) and the fault kind, the `what` carries a concrete call.
  * `crash:` candidates are worker deaths (Go fatal error or an unrecovered
    panic in a goroutine); the signature is the context line the check writes
    before the call.
  * candidates matching DROP are not copied (harness artefacts must be fixed
    in the check, not listed).
  * HANGS are constructs that never return (first observed with the 20 s
    watchdog). The generator avoids exactly these constructs
    (internal/c09/skiptable.go); their witnesses are probe cases that run the
    call in a process of its own for 4 s, so each is re-observed on every run.
  * FIXED: entries of the previous findings file that no longer reproduce
    because of a named commit in /repo are kept with status "fixed: ...".
"""
import json, glob, sys, re

DROP = [r'^harness-', r'^hang:', r'^canary-after', r' fmt dirs=', r'^hang-or-oom ', r'^probe-died ', r'evaluator arg=']  # the evaluator signature is no longer produced since 67f6fa3  # 'fmt dirs=' is the signature shape of an earlier version of the check

ROOT = [
    (r'^fault=index\[len0\] evaluator arg=\(values\)$',
     'Function.Eval takes vs[0] of an argument that evaluated to zero values: any call with a (values) argument, e.g. (list (values)), ends in index out of range'),
    (r'^fault=index fmt argument-position-outside-list$',
     'format directives read c.args[c.argPos] (also for the v parameter, after ~n* / ~n:* / ~n@* jumps, and inside the sublists of ~{ and ~?) without checking that the position is inside the argument list: (format nil "~a") ends in index out of range instead of an error about missing arguments'),
    (r'^fault=.* fmt dir=', 'format directive ~{dirs}: Go runtime fault ({kind}) instead of a condition'),
    (r'^fault=.* read lead=', 'reader: Go runtime fault ({kind}) on input starting {lead}'),
    (r'^fault=.* fn=', '{fn}: Go runtime fault ({kind}) reported as an error condition instead of an argument/type check'),
    (r'^not-a-condition fn=', '{fn}: signals an object that is not a condition'),
    (r'^over-budget ', 'more than 10^6 evaluation steps for one call on pool arguments'),
    (r'^alloc ', 'more than 256 MiB allocated by one call on pool arguments'),
    (r'^crash:.*world broken after fn=common-lisp:unuse-package',
     'after (unuse-package p) for a package the current package does not use (or uses), Package.Unuse rebuilds the current package from its use list and drops its own functions, variables and classes; the next defflavor/make-instance in that package ends in a nil pointer dereference (interpreter unusable)'),
    (r'^crash:.*args=\(.*big40', '{fn}: a count of 2^40 is handed to the Go allocator unchecked; the runtime cannot satisfy it and the whole process dies with fatal error: out of memory (an error condition about the size is expected)'),
    (r'^crash:.*src "@infinite-recursion"', 'unbounded recursion ((defun f (n) (1+ (f n))) (f 1)) is not stopped by any depth limit: the Go stack overflows and the whole process dies with fatal error: stack overflow, which no handler can catch'),
    (r'^crash:.*src ', 'evaluating the program text kills the process'),
    (r'^fault=.* src=', 'program text {src}: Go runtime fault ({kind}) reported as an error condition'),
    (r'^crash:.*fn=gi:run',
     'gi:run evaluates its form in a goroutine without recover: any condition in it (unbound variable, not a function) is an unrecovered Go panic that kills the whole process'),
    (r'^crash:', 'the process died (Go fatal error / unrecovered panic)'),
]

# Findings that never return: re-observed on every run through a probe witness
# (the inner call runs in a process of its own for 4 s, see execProbe in c09.go).
HANGS = [
    {"signature": "hang-or-oom fn=common-lisp:read-line args=(closedstream)",
     "witness": {"k": "probe", "sub": "fn", "fn": "common-lisp:read-line", "args": ["closed-stream"]},
     "what": "(let ((s (make-string-input-stream \"x\"))) (close s) (read-line s)) never returns (spins in Go, no condition). Avoided in generation: read-line with a closed string stream as first argument (skiptable.go: read-line-closed-stream)."},
    {"signature": "hang-or-oom fmt ctl=\"~4611686018427387904%\" args=()",
     "witness": {"k": "probe", "sub": "fmt", "ctl": "~4611686018427387904%"},
     "what": "format tries to produce as many characters as a count/mincol/column parameter says, without bound: (format nil \"~4611686018427387904%\") or (format nil \"~vA\" 4611686018427387904 1) allocates until the process dies with fatal error: out of memory (directives ~% ~& ~| ~~ ~A ~S ~D ~B ~O ~X ~T ~$ ~F ~E ~G ~< and ~* followed by ~#). Avoided in generation: those directives with a literal parameter of 7+ digits, or a v parameter when 2^62/2^70/-2^63 is among the arguments (format.go: fmtRisk, fmt-huge-parameter)."},
    {"signature": "hang-or-oom fmt ctl=\"~5,0A\" args=(posint)",
     "witness": {"k": "probe", "sub": "fmt", "ctl": "~5,0A", "args": ["one"]},
     "what": "(format nil \"~5,0A\" 1) never returns: the padding loop of ~A/~S adds colinc pad characters until mincol is reached and colinc = 0 adds none. ~mincol,0< and ~n,0T with the same parameter end in integer divide by zero (listed separately). Avoided in generation: ~A/~S whose second parameter is 0, # or v with 0 among the arguments (format.go: fmtRisk, fmt-colinc-zero)."},
]

# Repairs committed in /repo: entries of the previous findings file that no
# longer reproduce and belong to one of these are kept as "fixed".
FIXED = [
    (r'evaluator arg=\(values\)', '67f6fa3', 'Function.Eval indexed vs[0] of an argument form that returned no values'),
    (r'fn=common-lisp:(case|ecase|defun|defmacro|shiftf|rotatef)( raw)?$', 'd874908', 'a special form called without arguments indexed args[0]'),
    (r'^fault=nil-deref fn=(common-lisp:(package-nicknames|export|unexport)|gi:(lock-package|unlock-package|package-locked-p))$', '3b1c274', 'an unknown package designator was dereferenced as a nil *Package'),
    (r'^fault=type-assertion\[not_slip.Octets\] fn=gi:', '2060702', 'a nil argument failed the unchecked slip.Octets type assertion'),
]
PREVIOUS = '/tmp/c09probe/findings-prev.json'


def describe(sig, cand_what):
    for pat, text in ROOT:
        if re.search(pat, sig):
            kind = ''
            m = re.match(r'fault=(\S+)', sig)
            if m:
                kind = m.group(1)
            fn = ''
            m = re.search(r'fn=(\S+)( raw)?', sig)
            if m:
                fn = m.group(1) + (' (special form called with unevaluated arguments)' if m.group(2) else '')
            dirs = ''
            m = re.search(r'dirs?=(.*)$', sig)
            if m:
                dirs = m.group(1)
            lead = ''
            m = re.search(r'src=(.*)$', sig)
            src = m.group(1) if m else ''
            m = re.search(r'lead=(.*)$', sig)
            if m:
                lead = m.group(1)
            for k, v in (('{kind}', kind), ('{fn}', fn), ('{dirs}', dirs), ('{lead}', lead), ('{src}', src)):
                text = text.replace(k, v)
            return text
    return None


def main():
    files = sorted(glob.glob('/tmp/emit-c09/*.json') + glob.glob('/tmp/emit-c09/*/*.json'))
    seen = {}
    dropped = set()
    for f in files:
        for e in json.load(open(f)):
            sig = e['signature']
            if any(re.search(p, sig) for p in DROP):
                dropped.add(sig)
                continue
            if sig not in seen or len(json.dumps(e['witness'])) < len(json.dumps(seen[sig]['witness'])):
                seen[sig] = e
    for sig in sorted(dropped):
        print('dropped (must not be listed):', sig, file=sys.stderr)
    # the innermost frame of a stack overflow differs from run to run: one glob entry
    for sig in [k for k in seen if 'src "@infinite-recursion"' in k]:
        e = seen.pop(sig)
        g = 'crash:fatal error: c09 died in src "@infinite-recursion" @ *'
        e['signature'] = g
        seen.setdefault(g, e)
    out = []
    for sig, e in sorted(seen.items()):
        root = describe(sig, e['what'])
        if root is None:
            print('UNREVIEWED signature, not listed:', sig, file=sys.stderr)
            continue
        example = e['what'].split('\n')[0]
        if sig.startswith('crash:'):
            example = 'witness case ' + json.dumps(e['witness'])
        out.append({'property': 'C09', 'signature': sig, 'what': (root + '; e.g. ' + example)[:600], 'status': 'open', 'witness': e['witness']})
    for h in HANGS:
        out.append({'property': 'C09', 'signature': h['signature'], 'what': h['what'], 'status': 'open', 'witness': h['witness']})
    have = {e['signature'] for e in out}
    import os
    if os.path.exists(PREVIOUS):
        for e in json.load(open(PREVIOUS)):
            sig = e['signature']
            if sig in have:
                continue
            if e['status'].startswith('fixed:'):
                out.append(e)
                continue
            for pat, commit, why in FIXED:
                if re.search(pat, sig):
                    out.append({'property': 'C09', 'signature': sig, 'what': e['what'], 'status': 'fixed: property=C09 %s %s' % (commit, why)})
                    break
            else:
                print('no longer reproduces, deleted:', sig, file=sys.stderr)
    print(len(files), 'files,', len(seen), 'signatures ->', len(out), 'entries', file=sys.stderr)
    json.dump(out, sys.stdout, indent=1)
    print()


main()
