#!/usr/bin/env python3
"""Build C05 entries of known_findings.json from reviewed triage candidates.
mag=big cells are merged into one prefix entry per (fail, op); mag=small cells are exact."""
import json,glob,sys,re
seen={}
for f in sorted(glob.glob('/tmp/emit/c05_*.json')):
    for e in json.load(open(f)):
        sig=e['signature']
        if sig not in seen or len(json.dumps(e['witness']))<len(json.dumps(seen[sig]['witness'])):
            seen[sig]=e
CAUSE={
 'non-canonical':'result is not canonical (an integer in fixnum range held as bignum, or an integer held as n/1 ratio)',
 'float-result':'exact rational operation returns a float (bignum/ratio operands are coerced to long- or double-float)',
 'wrong-value':'result differs from the exact value (fixnum overflow wraps at 2^63, or a wrong algorithm for negative/bignum operands)',
 'operand-mutated':'the bignum/ratio held by an operand variable is modified in place by the call',
 'wrong-truth':'comparison answers from a float-rounded value instead of the exact values',
 'internal-fault':'Go runtime fault (integer divide by zero / slice bounds) instead of a Lisp condition',
 'error:type-error':'rejects bignum operands with a type-error',
 'no-error':'no error signalled where the exact result does not exist (division by zero)',
 'not-a-number':'returns an infinity/NaN instead of the exact integer',
 'missing-values':'returns fewer values than the language defines',
}
out={}
for sig,e in sorted(seen.items()):
    m=re.match(r'fail=(\S+) op=(\S+) mag=(\S+) kinds=(\S+)$',sig)
    if not m:
        print('unparsed',sig,file=sys.stderr); continue
    fail,op,mag,kinds=m.groups()
    cause=CAUSE.get(fail,fail)
    if mag=='big':
        key=sig
        what='%s on operands or results at or beyond 2^31: %s; e.g. %s'%(op,cause,e['what'])
    else:
        key=sig
        what='%s on small %s operands: %s; e.g. %s'%(op,kinds,cause,e['what'])
    if key not in out or len(json.dumps(e['witness']))<len(json.dumps(out[key]['witness'])):
        out[key]={'property':'C05','signature':key,'what':what[:400],'status':'open','witness':e['witness']}
print(len(seen),'signatures ->',len(out),'entries',file=sys.stderr)
json.dump(list(out.values()),sys.stdout,indent=1)
