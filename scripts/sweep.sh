#!/bin/bash
# usage: scripts/sweep.sh <tier> <seed> <ID>... — runs checks one after the other, prints one summary line each
tier="$1"; seed="$2"; shift 2
cd /verif
for id in "$@"; do
  out=$(VERIF_SEED=$seed ./run $id $tier 2>&1); rc=$?
  v=$(echo "$out" | grep -c "^VIOLATION"); n=$(echo "$out" | grep -c "^NOTE"); k=$(echo "$out" | grep -c "^KNOWN-FINDING"); inc=$(echo "$out" | grep -c "^INCONCLUSIVE")
  w=$(echo "$out" | grep -o "wall=[0-9.]*s" | tail -1)
  echo "$id tier=$tier seed=$seed rc=$rc violations=$v notes=$n known=$k inconclusive=$inc $w"
  if [ $v -gt 0 ] || [ $n -gt 0 ]; then echo "$out" | grep -A1 "^VIOLATION\|^NOTE" | grep -v "^--" | cut -c1-220 | head -12; fi
done
