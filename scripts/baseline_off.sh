#!/bin/bash
# Runs the repository's test suite with the verif guard OFF and checks that every
# test of the stable baseline (scripts/stable_pass.txt, from BASELINE.json) passes.
set -u
cd "${1:-/repo}"
export GOPROXY=off; unset GOFLAGS
unset GOSUMDB GOTOOLCHAIN GOWORK 2>/dev/null
out=$(mktemp)
go test -mod=mod -json -vet=off -count=1 -timeout 25m ./... > "$out" 2>/dev/null
# a few tests share /tmp/scratch with any other test run on the machine: when a stable test did not
# pass, run the suite once more and count a test as passed if it passed in either run
if ! python3 -c "
import json,sys
p=set()
for l in open('$out',errors='replace'):
    try: e=json.loads(l)
    except Exception: continue
    if e.get('Action')=='pass' and e.get('Test'): p.add(e['Package']+'::'+e['Test'])
sys.exit(0 if all(w.strip() in p for w in open('/verif/scripts/stable_pass.txt') if w.strip()) else 1)"; then
  go test -mod=mod -json -vet=off -count=1 -timeout 25m ./... >> "$out" 2>/dev/null
fi
# the raw `go test -json` stream first (for any parser of the baseline format), the verdict lines after it
[ -n "${BASELINE_QUIET:-}" ] || cat "$out"
python3 - "$out" /verif/scripts/stable_pass.txt <<'PY'
import json,sys
passed=set()
for l in open(sys.argv[1],errors='replace'):
    try: e=json.loads(l)
    except Exception: continue
    if e.get('Action')=='pass' and e.get('Test'):
        passed.add('%s::%s'%(e['Package'],e['Test']))
want=[l.strip() for l in open(sys.argv[2]) if l.strip()]
missing=[w for w in want if w not in passed]
print('baseline: %d stable tests, %d passed, %d missing'%(len(want),len(want)-len(missing),len(missing)))
for m in missing[:40]: print('  NOT PASSED',m)
sys.exit(1 if missing else 0)
PY
rc=$?
rm -f "$out"
# tests hidden behind sandbox aborts (not part of the stable list, but must not be broken by a repair)
/verif/scripts/hidden_tests.sh "$PWD" || rc=1
exit $rc
