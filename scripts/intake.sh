#!/bin/bash
# usage: scripts/intake.sh <ID> <wave-letter> [nosuite]
# Takes over what a seeding sub-agent left in /tmp/wt/seed-<wave>-<ID> (uncommitted change + _seeded/),
# confirms it independently (demo fails with the change, passes without; the repository's suite with the
# guard off still passes with the change), stores it as seeded/<ID><wave>/ and runs the property's quick
# check against the changed worktree. Prints one RESULT line.
set -u
id="$1"; w="$2"; nosuite="${3:-}"
wt=/tmp/wt/seed-$w-$id; dst=/verif/seeded/$id$w
low=$(echo "$id" | tr 'A-Z' 'a-z')
[ -d "$wt/_seeded/demo" ] || { echo "RESULT $id$w no _seeded/demo in $wt"; exit 9; }
export GOPROXY=off; unset GOFLAGS GOSUMDB GOTOOLCHAIN GOWORK 2>/dev/null
mkdir -p "$dst"
git -C "$wt" diff > "$dst/patch.diff"
[ -s "$dst/patch.diff" ] || { echo "RESULT $id$w empty patch"; exit 9; }
rm -rf "$dst/demo"; cp -r "$wt/_seeded/demo" "$dst/demo"; cp "$wt/_seeded/meta.json" "$dst/meta.json" 2>/dev/null
log=/tmp/intake.$id$w.log; : > "$log"
demo() { (cd "$wt" && timeout 400 go test -mod=mod -vet=off -count=1 ./_seeded/demo/ >> "$log" 2>&1); }
echo "== demo with change" >> "$log"; demo; with=$?
git -C "$wt" apply -R "$dst/patch.diff" || { echo "RESULT $id$w cannot reverse patch"; exit 9; }
echo "== demo without change" >> "$log"; demo; without=$?
git -C "$wt" apply "$dst/patch.diff"
suite=skipped
if [ -z "$nosuite" ]; then
  echo "== suite with change" >> "$log"
  if BASELINE_QUIET=1 timeout 1800 /verif/scripts/baseline_off.sh "$wt" >> "$log" 2>&1; then suite=pass; else suite=FAIL; fi
fi
echo "== check" >> "$log"
cd /verif
VERIF_REPO="$wt" VCHECK_ONLY=$low ./run "$id" quick > /tmp/intake.$id$w.check.log 2>&1; rc=$?
nv=$(grep -a -c '^VIOLATION' /tmp/intake.$id$w.check.log)
echo "RESULT $id$w demo_with=$with(want!=0) demo_without=$without(want 0) suite=$suite check_exit=$rc violations=$nv"
grep -a -A2 '^VIOLATION' /tmp/intake.$id$w.check.log | grep -v '^--' | cut -c1-240 | head -9
rm -rf /verif/bin/alt-*seed_${w}_${id}_*
