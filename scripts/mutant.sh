#!/bin/bash
# usage: scripts/mutant.sh <seeded-dir> <ID> [tier]   — apply the seeded change to /repo, run the check, undo.
set -u
d="$(cd "$1" && pwd)"; id="$2"; tier="${3:-quick}"
cd /verif
git -C /repo diff --quiet || { echo "/repo has uncommitted changes; refusing"; exit 9; }
git -C /repo apply "$d/patch.diff" || { echo "patch does not apply"; exit 9; }
trap 'git -C /repo checkout -- . ' EXIT
./run "$id" "$tier" > /tmp/mutant.$id.$$.log 2>&1
rc=$?
grep -E "^VIOLATION|HELD|VIOLATED|INCONCLUSIVE|BUILD" /tmp/mutant.$id.$$.log | head -8
grep -A3 "^VIOLATION" /tmp/mutant.$id.$$.log | head -24 | cut -c1-300
rm -f /tmp/mutant.$id.$$.log
echo "exit=$rc"
exit $rc
