#!/usr/bin/env python3
"""usage: mark_fixed.py <ID> <commit> <what failed> <signature>...  — turn open findings into fixed entries."""
import json,sys,os
root=os.path.dirname(os.path.dirname(os.path.abspath(__file__)))
pid,commit,what=sys.argv[1:4]; sigs=set(sys.argv[4:])
p=os.path.join(root,'findings',pid+'.json')
f=json.load(open(p)); n=0
for e in f:
    if e['signature'] in sigs and e['status']=='open':
        e['status']='fixed: property=%s %s %s'%(pid,commit,what); e.pop('witness',None); n+=1
json.dump(f,open(p,'w'),indent=1,ensure_ascii=False)
print(pid,'marked',n,'of',len(sigs))
