#!/usr/bin/env python3
"""Assemble DESIGN.md from design/00-head.md, design/CNN.md (one per property, owned by the
builder of that check), design/90-tail.md, plus two generated tables: the seeded-change table
(seeded/*/meta.json + seeded/RESULTS.json) and the status table (findings/*.json, meta/ENABLED,
fix commits in /repo)."""
import json, glob, os, subprocess, re
root = os.path.dirname(os.path.dirname(os.path.abspath(__file__)))
rd = lambda p: open(os.path.join(root, p)).read()

def seeded_table():
    return subprocess.run(['python3', os.path.join(root, 'scripts', 'seeded_table.py')], capture_output=True, text=True).stdout

def status_table():
    enabled = rd('meta/ENABLED').split()
    rows = ['| check | state | level | open findings | repaired (fixed entries) | quick cases (seed 1) |', '|---|---|---|---|---|---|']
    to, tf = 0, 0
    for i in range(1, 21):
        cid = 'C%02d' % i
        o = f = 0
        try:
            d = json.load(open(os.path.join(root, 'findings', cid + '.json')))
            fs = d if isinstance(d, list) else d.get('findings', [])
            for e in fs:
                if e.get('status', 'open') == 'open':
                    o += 1
                else:
                    f += 1
        except Exception:
            pass
        to += o; tf += f
        lvl = cases = ''
        try:
            m = json.load(open(os.path.join(root, 'meta', cid + '.json')))
            lvl = m.get('level', '')
        except Exception:
            pass
        try:
            ev = json.load(open(os.path.join(root, 'evidence', cid + '.json')))
            cases = '%s (%s distinct non-trivial)' % (ev.get('coverage', {}).get('evaluations', ''), ev.get('coverage', {}).get('distinct_nontrivial', ''))
        except Exception:
            pass
        rows.append('| %s | %s | %s | %d | %d | %s |' % (cid, 'enabled' if cid in enabled else 'not claimed', lvl, o, f, cases))
    nfix = subprocess.run(['git', '-C', '/repo', 'log', '--oneline', '--grep', '^fix:'], capture_output=True, text=True).stdout.count('\n')
    rows.append('')
    rows.append('Totals: %d open findings, %d fixed entries, %d `fix:` commits in /repo.' % (to, tf, nfix))
    return '\n'.join(rows) + '\n'

out = [rd('design/00-head.md')]
for i in range(1, 21):
    out.append(rd('design/C%02d.md' % i))
tail = rd('design/90-tail.md')
tail = tail.replace('@@SEEDED_TABLE@@', seeded_table()).replace('@@STATUS_TABLE@@', status_table())
out.append(tail)
open(os.path.join(root, 'DESIGN.md'), 'w').write('\n'.join(s.rstrip() + '\n' for s in out))
print('DESIGN.md written: %d lines' % sum(s.count('\n') + 1 for s in out))
