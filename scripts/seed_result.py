#!/usr/bin/env python3
"""usage: seed_result.py <seeded-id> <check> caught|missed "<signature>" ["<note>"] — record a result in seeded/RESULTS.json"""
import json,sys,os
root=os.path.dirname(os.path.dirname(os.path.abspath(__file__)))
p=os.path.join(root,'seeded','RESULTS.json')
r=json.load(open(p))
sid,check,c,sig=sys.argv[1:5]
note=sys.argv[5] if len(sys.argv)>5 else ''
r[sid]={"caught":c=='caught',"check":check,"signature":sig,"note":note}
json.dump(r,open(p,'w'),indent=1,ensure_ascii=False,sort_keys=True)
