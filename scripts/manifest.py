#!/usr/bin/env python3
"""Generate MANIFEST.json from meta/*.json (one file per claimed check) and meta/not_applicable.json."""
import json,glob,os
root=os.path.dirname(os.path.dirname(os.path.abspath(__file__)))
props=[json.loads(l)['id'] for l in open(os.path.join(root,'properties.jsonl'))]
checks=[];claimed=set()
enabled=set(open(os.path.join(root,'meta','ENABLED')).read().split())
for f in sorted(glob.glob(os.path.join(root,'meta','C*.json'))):
    m=json.load(open(f)); pid=m['property_id']
    if pid not in enabled: continue
    claimed.add(pid)
    checks.append({
      "property_id":pid,
      "quick_cmd":"./run %s quick"%pid,
      "thorough_cmd":"./run %s thorough"%pid,
      "evidence_file":"/verif/evidence/%s.json"%pid,
      "replay_cmd_template":"./run %s quick -replay {path}"%pid,
      "engine":"vcheck",
      "level_claimed":{"category":m.get('level','exploration'),"text":m['text'],"design_ref":m.get('design_ref','DESIGN.md 5/'+pid)},
      "level_note":m['note'],
      "technique":m['technique'],
    })
na=[]
naf=os.path.join(root,'meta','not_applicable.json')
reasons=json.load(open(naf)) if os.path.exists(naf) else {}
for p in props:
    if p not in claimed:
        na.append({"property_id":p,"reason":reasons.get(p,"check not built yet in this revision of /verif (runtime monitoring applies; see DESIGN.md)")})
hooks=json.load(open(os.path.join(root,'meta','hooks.json')))
man={
 "version":1,
 "setup_cmd":"cd /verif && GOFLAGS=-mod=mod GOPROXY=off go build -tags verif -o bin/vcheck ./cmd/vcheck && GOFLAGS=-mod=mod GOPROXY=off go build -race -tags verif -o bin/vcheck-race ./cmd/vcheck",
 "hooks":hooks,
 "engines":[{"name":"vcheck","path":"/verif/cmd/vcheck","serves_properties":sorted(claimed),
   "kind_free_text":"Go driver + worker processes linked against /repo's working tree (build tag verif): seeded generators, reference-model / relation monitors, race detector, crash-point enumeration; see DESIGN.md"}],
 "checks":checks,
 "not_applicable":na,
 "notes":"Every check is ./run <ID> <tier>: rebuilds bin/vcheck from /repo's working tree with -tags verif, runs worker processes, matches violations against known_findings.json (read-only), rewrites evidence/<ID>.json. VERIF_SEED selects the seed (default 1)."
}
json.dump(man,open(os.path.join(root,'MANIFEST.json'),'w'),indent=1)
print('checks:',sorted(claimed),'not_applicable:',[x['property_id'] for x in na])
